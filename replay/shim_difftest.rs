//! Differential self-test of the container models in /verif/shims against the containers they
//! replace (std HashMap, hashlink LinkedHashMap).  Compiled natively as a `#[cfg(test)]` module at the
//! crate root of a copy of /repo; run by setup_cmd and by the thorough tiers.
use crate::verif_shims::hashmap::HashMap as MHashMap;
use crate::verif_shims::linked::LinkedHashMap as MLinked;

struct Lcg(u64);
impl Lcg {
    fn next(&mut self) -> u64 {
        self.0 = self.0.wrapping_mul(6364136223846793005).wrapping_add(1442695040888963407);
        self.0 >> 33
    }
}

#[test]
fn verif_shim_hashmap_matches_std() {
    let mut bad = 0;
    for seed in 0..300u64 {
        let mut r = Lcg(seed * 7919 + 1);
        let mut m: MHashMap<u8, u16> = MHashMap::default();
        let mut s: std::collections::HashMap<u8, u16> = std::collections::HashMap::new();
        for _ in 0..40 {
            let k = (r.next() % 6) as u8;
            let v = (r.next() % 1000) as u16;
            match r.next() % 9 {
                0 | 1 => {
                    if s.len() < 6 || s.contains_key(&k) {
                        if m.insert(k, v) != s.insert(k, v) {
                            bad += 1;
                        }
                    }
                }
                2 => {
                    if m.remove(&k) != s.remove(&k) {
                        bad += 1;
                    }
                }
                3 => {
                    if m.get(&k) != s.get(&k) || m.contains_key(&k) != s.contains_key(&k) {
                        bad += 1;
                    }
                }
                4 => {
                    if s.len() < 6 || s.contains_key(&k) {
                        *m.entry(k).or_insert(v) += 1;
                        *s.entry(k).or_insert(v) += 1;
                    }
                }
                5 => {
                    m.retain(|k, v| (*k as u16 + *v) % 3 != 0);
                    s.retain(|k, v| (*k as u16 + *v) % 3 != 0);
                }
                6 => {
                    if s.len() < 6 || s.contains_key(&k) {
                        m.entry(k).and_modify(|x| *x = v).or_insert(v + 1);
                        s.entry(k).and_modify(|x| *x = v).or_insert(v + 1);
                    }
                }
                7 => {
                    if let Some(x) = m.get_mut(&k) {
                        *x = x.wrapping_add(3);
                    }
                    if let Some(x) = s.get_mut(&k) {
                        *x = x.wrapping_add(3);
                    }
                }
                _ => {
                    let a: MHashMap<u8, u16> = m.iter().filter(|(k, _)| **k % 2 == 0).map(|(k, v)| (*k, *v)).collect();
                    let b: std::collections::HashMap<u8, u16> = s.iter().filter(|(k, _)| **k % 2 == 0).map(|(k, v)| (*k, *v)).collect();
                    let mut av: Vec<_> = a.iter().map(|(k, v)| (*k, *v)).collect();
                    let mut bv: Vec<_> = b.iter().map(|(k, v)| (*k, *v)).collect();
                    av.sort();
                    bv.sort();
                    if av != bv {
                        bad += 1;
                    }
                }
            }
            let mut a: Vec<_> = m.iter().map(|(k, v)| (*k, *v)).collect();
            let mut b: Vec<_> = s.iter().map(|(k, v)| (*k, *v)).collect();
            a.sort();
            b.sort();
            let mut av: Vec<_> = m.values().copied().collect();
            let mut bv: Vec<_> = s.values().copied().collect();
            av.sort();
            bv.sort();
            if a != b || m.len() != s.len() || av != bv {
                bad += 1;
            }
        }
    }
    println!("VERIF-SHIM hashmap mismatches={}", bad);
    assert_eq!(bad, 0);
}

#[test]
fn verif_shim_linked_matches_hashlink() {
    let mut bad = 0;
    for seed in 0..300u64 {
        let mut r = Lcg(seed * 104729 + 3);
        let mut m: MLinked<u8, u16> = MLinked::new();
        let mut s: hashlink::LinkedHashMap<u8, u16> = hashlink::LinkedHashMap::new();
        for _ in 0..40 {
            let k = (r.next() % 6) as u8;
            let v = (r.next() % 1000) as u16;
            match r.next() % 8 {
                0 | 1 => {
                    if m.insert(k, v) != s.insert(k, v) {
                        bad += 1;
                    }
                }
                2 => {
                    if m.remove(&k) != s.remove(&k) {
                        bad += 1;
                    }
                }
                3 => {
                    if m.pop_front() != s.pop_front() {
                        bad += 1;
                    }
                }
                4 => {
                    if m.get(&k) != s.get(&k) || m.front() != s.front() || m.back() != s.back() {
                        bad += 1;
                    }
                }
                5 => {
                    use crate::verif_shims::linked::RawEntryMut as MR;
                    use hashlink::linked_hash_map::RawEntryMut as SR;
                    let a = match m.raw_entry_mut().from_key(&k) {
                        MR::Occupied(mut o) => {
                            *o.get_mut() += 1;
                            o.to_back();
                            Some(*o.into_mut())
                        }
                        MR::Vacant(_) => None,
                    };
                    let b = match s.raw_entry_mut().from_key(&k) {
                        SR::Occupied(mut o) => {
                            *o.get_mut() += 1;
                            o.to_back();
                            Some(*o.into_mut())
                        }
                        SR::Vacant(_) => None,
                    };
                    if a != b {
                        bad += 1;
                    }
                }
                6 => {
                    let a = m.to_back(&k).map(|x| *x);
                    let b = s.to_back(&k).map(|x| *x);
                    if a != b {
                        bad += 1;
                    }
                }
                _ => {
                    m.retain(|k, v| (*k as u16 + *v) % 4 != 0);
                    s.retain(|k, v| (*k as u16 + *v) % 4 != 0);
                }
            }
            let a: Vec<_> = m.iter().map(|(k, v)| (*k, *v)).collect();
            let b: Vec<_> = s.iter().map(|(k, v)| (*k, *v)).collect();
            if a != b || m.len() != s.len() {
                bad += 1;
            }
        }
    }
    println!("VERIF-SHIM linked mismatches={}", bad);
    assert_eq!(bad, 0);
}

#[test]
fn verif_shim_arrayvec_matches_arrayvec() {
    use crate::verif_shims::arrayvec::ArrayVec as M;
    let mut bad = 0;
    for seed in 0..300u64 {
        let mut r = Lcg(seed * 15485863 + 11);
        let mut m: M<(u8, u16), 5> = M::new();
        let mut s: arrayvec::ArrayVec<(u8, u16), 5> = arrayvec::ArrayVec::new();
        for _ in 0..40 {
            let v = ((r.next() % 7) as u8, (r.next() % 1000) as u16);
            match r.next() % 8 {
                0 | 1 => {
                    if !s.is_full() {
                        m.push(v);
                        s.push(v);
                    }
                }
                2 => {
                    if !s.is_empty() {
                        let i = (r.next() as usize) % s.len();
                        if m.remove(i) != s.remove(i) {
                            bad += 1;
                        }
                    }
                }
                3 => {
                    if !s.is_full() {
                        let i = (r.next() as usize) % (s.len() + 1);
                        m.insert(i, v);
                        s.insert(i, v);
                    }
                }
                4 => {
                    if m.pop() != s.pop() {
                        bad += 1;
                    }
                }
                5 => {
                    m.sort_by(|a, b| a.1.cmp(&b.1));
                    s.sort_by(|a, b| a.1.cmp(&b.1));
                }
                6 => {
                    let a: M<u16, 5> = m.iter().map(|x| x.1).collect();
                    let b: arrayvec::ArrayVec<u16, 5> = s.iter().map(|x| x.1).collect();
                    if a.into_iter().collect::<Vec<_>>() != b.into_iter().collect::<Vec<_>>() {
                        bad += 1;
                    }
                }
                _ => {
                    if m.iter().position(|x| x.0 == v.0) != s.iter().position(|x| x.0 == v.0) || m.get(1) != s.get(1) || m.first() != s.first() {
                        bad += 1;
                    }
                }
            }
            if m.as_slice() != s.as_slice() || m.len() != s.len() || m.is_full() != s.is_full() {
                bad += 1;
            }
        }
    }
    println!("VERIF-SHIM arrayvec mismatches={}", bad);
    assert_eq!(bad, 0);
}

#[test]
fn verif_shim_btree_matches_std() {
    use crate::verif_shims::btree_map::{BTreeMap as M, Entry as ME};
    use std::collections::btree_map::{BTreeMap as S, Entry as SE};
    let mut bad = 0;
    for seed in 0..300u64 {
        let mut r = Lcg(seed * 32452843 + 13);
        let mut m: M<u8, u16> = M::new();
        let mut s: S<u8, u16> = S::new();
        for _ in 0..40 {
            let k = (r.next() % 9) as u8;
            let v = (r.next() % 1000) as u16;
            match r.next() % 8 {
                0 | 1 => {
                    if s.len() < 7 || s.contains_key(&k) {
                        if m.insert(k, v) != s.insert(k, v) {
                            bad += 1;
                        }
                    }
                }
                2 => {
                    if m.remove(&k) != s.remove(&k) {
                        bad += 1;
                    }
                }
                3 => {
                    if s.len() < 7 || s.contains_key(&k) {
                        let a = *m.entry(k).or_insert(v);
                        let b = *s.entry(k).or_insert(v);
                        if a != b {
                            bad += 1;
                        }
                    }
                }
                4 => {
                    let a = match m.entry(k) {
                        ME::Occupied(mut e) => {
                            *e.get_mut() += 1;
                            Some(*e.get())
                        }
                        ME::Vacant(_) => None,
                    };
                    let b = match s.entry(k) {
                        SE::Occupied(mut e) => {
                            *e.get_mut() += 1;
                            Some(*e.get())
                        }
                        SE::Vacant(_) => None,
                    };
                    if a != b {
                        bad += 1;
                    }
                }
                5 => {
                    for x in m.values_mut() {
                        *x = x.wrapping_add(1);
                    }
                    for x in s.values_mut() {
                        *x = x.wrapping_add(1);
                    }
                }
                6 => {
                    if m.keys().next() != s.keys().next() || m.get(&k) != s.get(&k) {
                        bad += 1;
                    }
                }
                _ => {
                    let a: Vec<u16> = m.clone().into_values().filter(|x| x % 2 == 0).take(3).collect();
                    let b: Vec<u16> = s.clone().into_values().filter(|x| x % 2 == 0).take(3).collect();
                    if a != b {
                        bad += 1;
                    }
                }
            }
            let a: Vec<_> = m.iter().map(|(k, v)| (*k, *v)).collect();
            let b: Vec<_> = s.iter().map(|(k, v)| (*k, *v)).collect();
            if a != b || m.len() != s.len() {
                bad += 1;
            }
        }
    }
    println!("VERIF-SHIM btree mismatches={}", bad);
    assert_eq!(bad, 0);
}
