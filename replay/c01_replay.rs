//! Native replay driver for C01 — `#[cfg(test)]` child of `crate::handler` in an unmodified copy of
//! /repo: real secp256k1 keys, real signed records, real signatures over real challenge data.
use super::session::Session;
use super::*;
use crate::packet::ChallengeData;
use enr::{CombinedKey, EnrKey, NodeId};
use std::convert::TryFrom;
use std::net::Ipv4Addr;

fn rec(key: &CombinedKey, seq: u64, port: u16) -> Enr {
    let mut e = Enr::builder().ip4(Ipv4Addr::new(10, 0, 0, 1)).udp4(port).build(key).unwrap();
    e.set_seq(seq, key).unwrap();
    e
}

#[test]
fn verif_replay_c01_handshake() {
    let mut bad = 0;
    let key_local = CombinedKey::generate_secp256k1();
    let local_id: NodeId = rec(&key_local, 1, 1).node_id();
    let key_x = CombinedKey::generate_secp256k1();
    let key_a = CombinedKey::generate_secp256k1();
    let x_id = rec(&key_x, 1, 1).node_id();
    // ephemeral key of the party answering the challenge
    let eph_sk = CombinedKey::generate_secp256k1();
    let eph_pub: Vec<u8> = match eph_sk.public() {
        enr::CombinedPublicKey::Secp256k1(k) => k.to_sec1_bytes().to_vec(),
        _ => unreachable!(),
    };
    for signer_is_x in [false, true] {
        for known_seq in [None, Some(5u64)] {
            // attached: (owner is x?, seq)
            let mut attached: Vec<Option<(bool, u64)>> = vec![None];
            for s in [4u64, 5, 6] {
                attached.push(Some((true, s)));
                attached.push(Some((false, s)));
            }
            for att in attached {
                let mut cd = [0u8; 63];
                for (i, b) in cd.iter_mut().enumerate() {
                    *b = (i as u8).wrapping_mul(37) ^ 0x5a;
                }
                let challenge_data = ChallengeData::try_from(&cd[..]).unwrap();
                let challenge_data2 = ChallengeData::try_from(&cd[..]).unwrap();
                let signer = if signer_is_x { &key_x } else { &key_a };
                let sig = crypto::sign_nonce(signer, &challenge_data2, &eph_pub, &local_id).unwrap();
                let challenge = Challenge {
                    data: challenge_data,
                    remote_enr: known_seq.map(|s| rec(&key_x, s, 9000)),
                };
                let att_enr = att.map(|(is_x, s)| rec(if is_x { &key_x } else { &key_a }, s, 9001));
                let lk = Arc::new(RwLock::new(CombinedKey::secp256k1_from_bytes(&mut key_local.encode()).unwrap()));
                let r = Session::establish_from_challenge(lk, &local_id, &x_id, challenge, &sig, &eph_pub, att_enr);
                let scenario = format!("signer_is_x={} known_seq={:?} attached={:?}", signer_is_x, known_seq, att);
                match r {
                    Ok((_s, enr)) => {
                        if !signer_is_x {
                            bad += 1;
                            println!("VERIF-REPLAY reproduced class=session-for-X-accepted-without-X-key {}", scenario);
                        } else if enr.node_id() != x_id {
                            bad += 1;
                            println!("VERIF-REPLAY reproduced class=session-record-of-another-identity {}", scenario);
                        }
                    }
                    Err(_) => {
                        let has_record = known_seq.is_some() || matches!(att, Some((true, _)));
                        let foreign = matches!(att, Some((false, _)));
                        if signer_is_x && has_record && !foreign {
                            bad += 1;
                            println!("VERIF-REPLAY reproduced class=genuine-handshake-rejected {}", scenario);
                        }
                    }
                }
            }
        }
    }
    // verify_enr: id and observed address
    {
        let key = CombinedKey::generate_secp256k1();
        let e = rec(&key, 1, 9000);
        let other = rec(&key_a, 1, 9000);
        let h = std::mem::MaybeUninit::<Handler>::uninit();
        let good = NodeAddress { socket_addr: "10.0.0.1:9000".parse().unwrap(), node_id: e.node_id() };
        let wrong_port = NodeAddress { socket_addr: "10.0.0.1:9001".parse().unwrap(), node_id: e.node_id() };
        let wrong_ip = NodeAddress { socket_addr: "10.0.0.2:9000".parse().unwrap(), node_id: e.node_id() };
        let wrong_id = NodeAddress { socket_addr: "10.0.0.1:9000".parse().unwrap(), node_id: other.node_id() };
        let v6 = NodeAddress { socket_addr: "[::1]:9000".parse().unwrap(), node_id: e.node_id() };
        let hr = unsafe { &*h.as_ptr() };
        if !hr.verify_enr(&e, &good) || !hr.verify_enr(&e, &v6) {
            bad += 1;
            println!("VERIF-REPLAY reproduced class=verify-enr-rejects-matching-record");
        }
        if hr.verify_enr(&e, &wrong_port) || hr.verify_enr(&e, &wrong_ip) {
            bad += 1;
            println!("VERIF-REPLAY reproduced class=verify-enr-accepts-address-mismatch");
        }
        if hr.verify_enr(&e, &wrong_id) {
            bad += 1;
            println!("VERIF-REPLAY reproduced class=verify-enr-accepts-foreign-id");
        }
    }
    println!("VERIF-REPLAY done bad={}", bad);
}
