//! C18 harnesses (limiter arithmetic) — child module of `crate::socket::filter::rate_limiter`.
//! `FnvHashMap` is replaced by the association-list model.  The quota (burst n) is concrete per
//! harness; t (time per token) and tau (bucket size in time) are symbolic with the relation
//! `from_quota` establishes: t = floor(tau / n).  Arrival times are arbitrary non-decreasing.
#![allow(dead_code, unused_imports, static_mut_refs)]
use super::*;
use std::time::Duration;

const K: usize = 4;

fn mk_limiter(n: u64) -> (Limiter<u8>, u64, u64) {
    // built through the constructor (robust against added fields), then given symbolic parameters
    let q = Quota {
        replenish_all_every: Duration::from_nanos(1000),
        max_tokens: 1,
    };
    let mut l: Limiter<u8> = match Limiter::from_quota(q) {
        Ok(l) => l,
        Err(_) => unreachable!(),
    };
    let t: u64 = kani::any();
    let tau: u64 = kani::any();
    kani::assume(t >= 1 && t < (1u64 << 36) && tau < (1u64 << 36));
    // t = floor(tau / n)  <=>  t*n <= tau < t*n + n
    kani::assume(t * n <= tau && tau < t * n + n);
    l.t = t;
    l.tau = tau;
    (l, t, tau)
}

/// a Duration of `ns` nanoseconds without a symbolic division: seconds and nanoseconds separately
fn any_duration_ns() -> (Duration, u64) {
    let s: u8 = kani::any();
    let n: u32 = kani::any();
    kani::assume(n < 1_000_000_000 && s < 64);
    (Duration::new(s as u64, n), (s as u64) * 1_000_000_000 + n as u64)
}

/// K arrivals for one of two keys at arbitrary non-decreasing times; checks, per key,
///  (1) burst + rate x window:  m accepted arrivals in a window of length W  =>  m * t <= W + tau
///  (2) conforming traffic is not refused: a refusal is justified by an earlier accepted arrival i
///      with (accepted since i, plus this one) * t > (now - time_i) + tau
fn gcra(n: u64) {
    let (mut l, t, tau) = mk_limiter(n);
    let mut times = [0u64; K];
    let mut keys = [0u8; K];
    let mut ok = [false; K];
    let mut last = 0u64;
    let mut i = 0;
    while i < K {
        let (d, ns) = any_duration_ns();
        kani::assume(ns >= last);
        last = ns;
        let k: u8 = kani::any();
        kani::assume(k < 2);
        times[i] = ns;
        keys[i] = k;
        ok[i] = l.allows(d, &k, 1).is_ok();
        i += 1;
    }
    // (1)
    let mut a = 0;
    while a < K {
        let mut b = a;
        while b < K {
            if ok[a] && ok[b] && keys[a] == keys[b] {
                // m * t as a sum: no symbolic-by-symbolic multiplication
                let mut m: u64 = 0;
                let mut mt: u64 = 0;
                let mut c = a;
                while c <= b {
                    if ok[c] && keys[c] == keys[a] {
                        m += 1;
                        mt += t;
                    }
                    c += 1;
                }
                assert!(mt <= (times[b] - times[a]) + tau, "more arrivals let through than burst + rate x window");
                kani::cover!(m == 3 && times[b] == times[a], "burst of three at one instant");
            }
            b += 1;
        }
        a += 1;
    }
    // (2)
    let mut j = 0;
    while j < K {
        if !ok[j] {
            kani::cover!(true, "an arrival is refused");
            let mut justified = false;
            let mut a = 0;
            while a < j {
                if ok[a] && keys[a] == keys[j] {
                    let mut mt: u64 = t;
                    let mut c = a;
                    while c < j {
                        if ok[c] && keys[c] == keys[j] {
                            mt += t;
                        }
                        c += 1;
                    }
                    if mt > (times[j] - times[a]) + tau {
                        justified = true;
                    }
                }
                a += 1;
            }
            assert!(justified, "arrival within the quota refused");
        }
        j += 1;
    }
    std::mem::forget(l);
}

/// pruning between arrivals changes no decision
fn prune_neutral(n: u64) {
    let (mut l1, t, tau) = mk_limiter(n);
    let mut l2: Limiter<u8> = match Limiter::from_quota(Quota { replenish_all_every: Duration::from_nanos(1000), max_tokens: 1 }) {
        Ok(l) => l,
        Err(_) => unreachable!(),
    };
    l2.t = t;
    l2.tau = tau;
    let mut last = 0u64;
    let mut i = 0;
    while i < K {
        // optional prune at a time between the previous and the next arrival
        let do_prune: bool = kani::any();
        if do_prune {
            let (pd, pns) = any_duration_ns();
            kani::assume(pns >= last);
            last = pns;
            l2.prune(pd);
            kani::cover!(l2.tat_per_key.len() < l1.tat_per_key.len(), "prune removed a key");
        }
        let (d, ns) = any_duration_ns();
        kani::assume(ns >= last);
        last = ns;
        let k: u8 = kani::any();
        kani::assume(k < 2);
        let r1 = l1.allows(d, &k, 1).is_ok();
        let r2 = l2.allows(d, &k, 1).is_ok();
        assert!(r1 == r2, "pruning changed a decision");
        i += 1;
    }
    std::mem::forget((l1, l2));
}

/// from_quota: tau = period in ns, t = floor(tau / burst); zero quotas are rejected
fn from_quota_relation(n: u64) {
    let ns: u32 = kani::any();
    let s: u8 = kani::any();
    kani::assume(ns < 1_000_000_000);
    let period = Duration::new(s as u64, ns);
    let total = (s as u64) * 1_000_000_000 + ns as u64;
    let r: Result<Limiter<u8>, _> = Limiter::from_quota(Quota { replenish_all_every: period, max_tokens: n });
    match r {
        Ok(l) => {
            assert!(n > 0 && total > 0);
            assert!(l.tau == total);
            assert!(l.t == total / n);
            assert!(l.tat_per_key.is_empty());
            std::mem::forget(l);
        }
        Err(_) => assert!(n == 0 || total == 0),
    }
}

macro_rules! harnesses {
    ($($name:ident => $body:expr;)*) => {$(
        #[kani::proof]
        #[kani::unwind(10)]
        fn $name() { $body }
    )*};
}
harnesses! {
    c18_gcra_burst1 => gcra(1);
    c18_gcra_burst2 => gcra(2);
    c18_gcra_burst3 => gcra(3);
    c18_prune_neutral_burst1 => prune_neutral(1);
    c18_prune_neutral_burst2 => prune_neutral(2);
    c18_from_quota_burst0 => from_quota_relation(0);
    c18_from_quota_burst1 => from_quota_relation(1);
    c18_from_quota_burst3 => from_quota_relation(3);
    c18_from_quota_burst10 => from_quota_relation(10);
    c18_twin_must_fail => { gcra(2); assert!(false, "twin"); };
}
