//! Native replay driver for C08 — compiled as a `#[cfg(test)]` child module of `crate::kbucket` in
//! a second, otherwise unmodified copy of /repo (no shims, no stubs).  Reads the counterexample
//! produced by the solver from $VERIF_REPLAY_FILE and re-executes the real iterator to completion.
use super::key::U256;
use super::*;

fn reference_order(d: &U256) -> Vec<usize> {
    let mut out = Vec::new();
    if d.is_zero() {
        return (0..256).collect();
    }
    let msb = 255 - d.leading_zeros() as usize;
    out.push(msb);
    for i in (0..msb).rev() {
        if d.bit(i) {
            out.push(i);
        }
    }
    for i in 0..256 {
        if !d.bit(i) {
            out.push(i);
        }
    }
    out
}

fn words_from_json(s: &str) -> Vec<Vec<u64>> {
    // minimal parser for {"distances": [[w0,w1,w2,w3], ...]}
    let start = s.find("\"distances\"").expect("distances key");
    let rest = &s[start..];
    let open = rest.find('[').unwrap();
    let mut depth = 0usize;
    let mut cur = String::new();
    let mut out: Vec<Vec<u64>> = Vec::new();
    for c in rest[open..].chars() {
        match c {
            '[' => {
                depth += 1;
                if depth == 2 {
                    cur.clear();
                }
            }
            ']' => {
                if depth == 2 {
                    out.push(
                        cur.split(',')
                            .filter(|x| !x.trim().is_empty())
                            .map(|x| x.trim().parse::<u64>().unwrap())
                            .collect(),
                    );
                }
                depth -= 1;
                if depth == 0 {
                    break;
                }
            }
            _ => {
                if depth == 2 {
                    cur.push(c)
                }
            }
        }
    }
    out
}

#[test]
fn verif_replay_c08_bucket_order() {
    let path = std::env::var("VERIF_REPLAY_FILE").expect("VERIF_REPLAY_FILE");
    let text = std::fs::read_to_string(path).unwrap();
    let mut bad = 0;
    for w in words_from_json(&text) {
        let d = U256([w[0], w[1], w[2], w[3]]);
        let got: Vec<usize> = ClosestBucketsIter::new(Distance(d)).map(|b| b.get()).collect();
        let want = reference_order(&d);
        if got != want {
            bad += 1;
            // classify
            let mut seen = vec![0usize; 256];
            for &g in &got {
                if g < 256 {
                    seen[g] += 1;
                }
            }
            let dup: Vec<usize> = (0..256).filter(|&i| seen[i] > 1).collect();
            let missing: Vec<usize> = (0..256).filter(|&i| seen[i] == 0).collect();
            let class = if !dup.is_empty() && missing.is_empty() && dup == vec![0] {
                "bucket0-yielded-twice".to_string()
            } else if !dup.is_empty() {
                format!("duplicate-buckets")
            } else if !missing.is_empty() {
                format!("missing-buckets")
            } else {
                "wrong-order".to_string()
            };
            println!(
                "VERIF-REPLAY reproduced class={} d={:?} len={} dup={:?} missing={:?}",
                class,
                w,
                got.len(),
                &dup[..dup.len().min(4)],
                &missing[..missing.len().min(4)]
            );
        } else {
            println!("VERIF-REPLAY not-reproduced d={:?}", w);
        }
    }
    println!("VERIF-REPLAY done bad={}", bad);
}

/// Table-level replay: stored ids, local id and target given as hex; compares `closest_keys` with
/// the sorted full scan, and `nodes_by_distances` with the filtered full scan.
#[test]
fn verif_replay_c08_table() {
    let path = match std::env::var("VERIF_REPLAY_FILE") {
        Ok(p) => p,
        Err(_) => return,
    };
    let text = std::fs::read_to_string(path).unwrap();
    if !text.contains("\"table\"") {
        println!("VERIF-REPLAY done bad=0");
        return;
    }
    fn hexfield(text: &str, key: &str) -> Vec<[u8; 32]> {
        let k = format!("\"{}\"", key);
        let start = match text.find(&k) {
            Some(s) => s,
            None => return vec![],
        };
        let rest = &text[start + k.len()..];
        let open = rest.find('[').unwrap();
        let close = rest.find(']').unwrap();
        rest[open + 1..close]
            .split(',')
            .filter_map(|x| {
                let x = x.trim().trim_matches('"');
                if x.len() != 64 {
                    return None;
                }
                let mut b = [0u8; 32];
                for i in 0..32 {
                    b[i] = u8::from_str_radix(&x[2 * i..2 * i + 2], 16).ok()?;
                }
                Some(b)
            })
            .collect()
    }
    fn numfield(text: &str, key: &str) -> Vec<u64> {
        let k = format!("\"{}\"", key);
        let start = match text.find(&k) {
            Some(s) => s,
            None => return vec![],
        };
        let rest = &text[start + k.len()..];
        let open = rest.find('[').unwrap();
        let close = rest.find(']').unwrap();
        rest[open + 1..close]
            .split(',')
            .filter_map(|x| x.trim().parse::<u64>().ok())
            .collect()
    }
    let local = hexfield(&text, "local")[0];
    let target = hexfield(&text, "target")[0];
    let ids = hexfield(&text, "ids");
    let dists = numfield(&text, "distances_req");
    let cap = numfield(&text, "cap").first().copied().unwrap_or(16) as usize;
    let lk: Key<enr::NodeId> = Key::from(enr::NodeId::new(&local));
    let tk: Key<enr::NodeId> = Key::from(enr::NodeId::new(&target));
    let mut table = KBucketsTable::<enr::NodeId, ()>::new(
        lk.clone(),
        std::time::Duration::from_secs(60),
        MAX_NODES_PER_BUCKET,
        None,
        None,
    );
    let mut stored: Vec<Key<enr::NodeId>> = Vec::new();
    for id in ids {
        let k: Key<enr::NodeId> = Key::from(enr::NodeId::new(&id));
        let st = NodeStatus {
            state: ConnectionState::Connected,
            direction: ConnectionDirection::Outgoing,
        };
        if let InsertResult::Inserted = table.insert_or_update(&k, (), st) {
            stored.push(k);
        }
    }
    let mut bad = 0;
    let got: Vec<_> = table.closest_keys(&tk).collect();
    let mut want = stored.clone();
    want.sort_by_key(|k| tk.distance(k));
    if got != want {
        bad += 1;
        println!("VERIF-REPLAY reproduced class=closest-keys-differs-from-sorted-scan got={} want={}", got.len(), want.len());
    }
    if !dists.is_empty() {
        let got: Vec<_> = table
            .nodes_by_distances(&dists, cap)
            .into_iter()
            .map(|e| e.node.key.clone())
            .collect();
        let mut want: Vec<Key<enr::NodeId>> = Vec::new();
        for d in dists.iter().filter(|d| **d >= 1 && **d <= 256) {
            for k in &stored {
                if lk.log2_distance(k) == Some(*d) && want.len() < cap {
                    want.push(k.clone());
                }
            }
        }
        let same_set = got.len() == want.len() && got.iter().all(|g| want.contains(g));
        if !same_set {
            bad += 1;
            println!("VERIF-REPLAY reproduced class=nodes-by-distances-differs got={} want={}", got.len(), want.len());
        }
    }
    println!("VERIF-REPLAY done bad={}", bad);
}
