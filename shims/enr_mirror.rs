//! S-enr: node records without cryptography.
//!
//! A real `enr::Enr` can only be produced by signing (k256) or by decoding + signature check, neither
//! of which a SAT solver can execute.  The harnesses therefore build records through a field-for-field
//! mirror of `enr::Enr<CombinedKey>` (`seq` and `node_id` are the real fields; the attributes the
//! code under test reads through accessors -- public key, udp4/udp6 socket, ip4 -- are *ghost*
//! attributes stored in the otherwise unused signature bytes) and stub those accessors to read the
//! ghost attributes.  The mirror layout is validated under Kani's own compiler by the harness
//! `enr_mirror_layout_ok` and natively by /verif/replay (setup_cmd).
//!
//! Trusted: the `enr` crate only lets correctly signed records exist, and a record's node id is the
//! hash of its public key.  The harnesses encode that as: ghost key `KEY_OF_X` <=> node id X.
#![allow(dead_code)]
use crate::Enr;
use enr::{CombinedKey, CombinedPublicKey, EnrKey, NodeId};
use std::collections::BTreeMap;
use std::marker::PhantomData;
use std::net::{Ipv4Addr, Ipv6Addr, SocketAddrV4, SocketAddrV6};

pub struct EnrMirror {
    pub seq: u64,
    pub node_id: NodeId,
    pub content: BTreeMap<Vec<u8>, bytes_shim::Bytes>,
    pub signature: Vec<u8>,
    pub phantom: PhantomData<CombinedKey>,
}

/// The value type of the record's map (re-exported by alloy-rlp, a direct dependency of discv5).
pub mod bytes_shim {
    pub use alloy_rlp::Bytes;
}

pub const GHOST_LEN: usize = 32;
pub const KEY_SECP: u8 = 1; // ghost public key rendered as CombinedPublicKey::Secp256k1(..)
pub const KEY_ED: u8 = 2; // ghost public key rendered as CombinedPublicKey::Ed25519(..)

#[derive(Clone, Copy)]
pub struct Ghost {
    pub key: u8,
    pub udp4: Option<([u8; 4], u16)>,
    pub udp6: Option<([u8; 16], u16)>,
    /// an IPv4 address without UDP port is possible in a record
    pub ip4_only: Option<[u8; 4]>,
}

impl Ghost {
    pub fn encode(&self) -> Vec<u8> {
        let mut v = Vec::with_capacity(GHOST_LEN);
        let mut b = [0u8; GHOST_LEN];
        b[0] = self.key;
        if let Some((ip, port)) = self.udp4 {
            b[1] = 1;
            b[2..6].copy_from_slice(&ip);
            b[6..8].copy_from_slice(&port.to_be_bytes());
        } else if let Some(ip) = self.ip4_only {
            b[1] = 2;
            b[2..6].copy_from_slice(&ip);
        }
        if let Some((ip, port)) = self.udp6 {
            b[8] = 1;
            b[9..25].copy_from_slice(&ip);
            b[25..27].copy_from_slice(&port.to_be_bytes());
        }
        let mut i = 0;
        while i < GHOST_LEN {
            v.push(b[i]);
            i += 1;
        }
        v
    }
}

pub fn mirror_enr(seq: u64, node_id: NodeId, ghost: Ghost) -> Enr {
    let m = EnrMirror {
        seq,
        node_id,
        content: BTreeMap::new(),
        signature: ghost.encode(),
        phantom: PhantomData,
    };
    unsafe { std::mem::transmute::<EnrMirror, Enr>(m) }
}

fn ghost_bytes<K: EnrKey>(e: &enr::Enr<K>) -> &[u8] {
    e.signature()
}

// ---- accessor stubs (generic in K because the stubbed methods are) ------------------------------
pub fn stub_public_key<K: EnrKey>(this: &enr::Enr<K>) -> K::PublicKey {
    let tag = ghost_bytes(this)[0];
    let pk: CombinedPublicKey = ghost_public_key(tag);
    assert!(std::mem::size_of::<K::PublicKey>() == std::mem::size_of::<CombinedPublicKey>());
    unsafe { std::mem::transmute_copy::<CombinedPublicKey, K::PublicKey>(&pk) }
}

/// The two ghost keys are told apart by enum variant; the key material is never inspected.
pub fn ghost_public_key(tag: u8) -> CombinedPublicKey {
    unsafe {
        if tag == KEY_ED {
            CombinedPublicKey::Ed25519(std::mem::zeroed())
        } else {
            CombinedPublicKey::Secp256k1(std::mem::zeroed())
        }
    }
}
pub fn ghost_key_tag(pk: &CombinedPublicKey) -> u8 {
    match pk {
        CombinedPublicKey::Secp256k1(_) => KEY_SECP,
        CombinedPublicKey::Ed25519(_) => KEY_ED,
    }
}

pub fn stub_udp4_socket<K: EnrKey>(this: &enr::Enr<K>) -> Option<SocketAddrV4> {
    let b = ghost_bytes(this);
    if b[1] == 1 {
        Some(SocketAddrV4::new(Ipv4Addr::new(b[2], b[3], b[4], b[5]), u16::from_be_bytes([b[6], b[7]])))
    } else {
        None
    }
}
pub fn stub_ip4<K: EnrKey>(this: &enr::Enr<K>) -> Option<Ipv4Addr> {
    let b = ghost_bytes(this);
    if b[1] == 1 || b[1] == 2 {
        Some(Ipv4Addr::new(b[2], b[3], b[4], b[5]))
    } else {
        None
    }
}
pub fn stub_udp4<K: EnrKey>(this: &enr::Enr<K>) -> Option<u16> {
    let b = ghost_bytes(this);
    if b[1] == 1 {
        Some(u16::from_be_bytes([b[6], b[7]]))
    } else {
        None
    }
}
pub fn stub_udp6_socket<K: EnrKey>(this: &enr::Enr<K>) -> Option<SocketAddrV6> {
    let b = ghost_bytes(this);
    if b[8] == 1 {
        let mut ip = [0u8; 16];
        ip.copy_from_slice(&b[9..25]);
        Some(SocketAddrV6::new(Ipv6Addr::from(ip), u16::from_be_bytes([b[25], b[26]]), 0, 0))
    } else {
        None
    }
}
pub fn stub_ip6<K: EnrKey>(this: &enr::Enr<K>) -> Option<Ipv6Addr> {
    let b = ghost_bytes(this);
    if b[8] == 1 {
        let mut ip = [0u8; 16];
        ip.copy_from_slice(&b[9..25]);
        Some(Ipv6Addr::from(ip))
    } else {
        None
    }
}
pub fn stub_udp6<K: EnrKey>(this: &enr::Enr<K>) -> Option<u16> {
    let b = ghost_bytes(this);
    if b[8] == 1 {
        Some(u16::from_be_bytes([b[25], b[26]]))
    } else {
        None
    }
}

// ---- wire model of a record (used where the packet / message codecs embed records) ---------------
/// Records on the wire are opaque to discv5: the `enr` crate encodes, decodes and validates them.
/// Model: a record occupies RECORD_WIRE_LEN bytes (seq, node id, ghost attributes); decoding fails or
/// returns the record those bytes denote; encode and decode are inverse.  `DECODE_FAILS` lets a
/// harness make validation fail for well-formed bytes (bad signature).
pub const RECORD_WIRE_LEN: usize = 8 + 32 + GHOST_LEN;
pub static mut DECODE_FAILS: bool = false;

pub fn encode_record(e: &Enr) -> Vec<u8> {
    let mut v = Vec::with_capacity(RECORD_WIRE_LEN);
    let s = e.seq().to_be_bytes();
    let id = e.node_id().raw();
    let g = e.signature();
    let mut i = 0;
    while i < 8 {
        v.push(s[i]);
        i += 1;
    }
    i = 0;
    while i < 32 {
        v.push(id[i]);
        i += 1;
    }
    i = 0;
    while i < GHOST_LEN {
        v.push(g[i]);
        i += 1;
    }
    v
}

pub fn decode_record(buf: &mut &[u8]) -> Result<Enr, alloy_rlp::Error> {
    if unsafe { DECODE_FAILS } || buf.len() < RECORD_WIRE_LEN {
        return Err(alloy_rlp::Error::Custom("record model: invalid record"));
    }
    let mut s = [0u8; 8];
    let mut id = [0u8; 32];
    let mut g = Vec::with_capacity(GHOST_LEN);
    let mut i = 0;
    while i < 8 {
        s[i] = buf[i];
        i += 1;
    }
    i = 0;
    while i < 32 {
        id[i] = buf[8 + i];
        i += 1;
    }
    i = 0;
    while i < GHOST_LEN {
        g.push(buf[40 + i]);
        i += 1;
    }
    *buf = &buf[RECORD_WIRE_LEN..];
    let m = EnrMirror {
        seq: u64::from_be_bytes(s),
        node_id: NodeId::new(&id),
        content: BTreeMap::new(),
        signature: g,
        phantom: PhantomData,
    };
    Ok(unsafe { std::mem::transmute::<EnrMirror, Enr>(m) })
}
