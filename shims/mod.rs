//! Environment models substituted into the scratch copy of sigp/discv5 before it is given to Kani.
//! None of this replaces logic of discv5 itself: only imports of logging, locking, channels and
//! standard containers are redirected here (see DESIGN.md section 3).
#![allow(dead_code, unused_macros, unused_imports, clippy::all)]

/// S-log: `tracing` macros -> no-ops (Kani 0.68 ICEs on tracing's callsite statics).
pub mod log {
    macro_rules! __verif_noop {
        ($($t:tt)*) => {{}};
    }
    pub(crate) use __verif_noop as debug;
    pub(crate) use __verif_noop as error;
    pub(crate) use __verif_noop as info;
    pub(crate) use __verif_noop as trace;
    pub(crate) use __verif_noop as warn;
}

/// S-lock: `parking_lot::RwLock` -> single-threaded cell with the same `read()/write()` surface.
pub mod lock {
    use std::cell::UnsafeCell;
    use std::ops::{Deref, DerefMut};
    pub struct RwLock<T>(UnsafeCell<T>);
    unsafe impl<T: Send> Send for RwLock<T> {}
    unsafe impl<T: Send + Sync> Sync for RwLock<T> {}
    pub struct RwLockReadGuard<'a, T>(&'a T);
    pub struct RwLockWriteGuard<'a, T>(&'a mut T);
    impl<T> RwLock<T> {
        pub fn new(t: T) -> Self {
            RwLock(UnsafeCell::new(t))
        }
        pub fn read(&self) -> RwLockReadGuard<'_, T> {
            RwLockReadGuard(unsafe { &*self.0.get() })
        }
        pub fn write(&self) -> RwLockWriteGuard<'_, T> {
            RwLockWriteGuard(unsafe { &mut *self.0.get() })
        }
    }
    impl<T> Deref for RwLockReadGuard<'_, T> {
        type Target = T;
        fn deref(&self) -> &T {
            self.0
        }
    }
    impl<T> Deref for RwLockWriteGuard<'_, T> {
        type Target = T;
        fn deref(&self) -> &T {
            self.0
        }
    }
    impl<T> DerefMut for RwLockWriteGuard<'_, T> {
        fn deref_mut(&mut self) -> &mut T {
            self.0
        }
    }
}

/// S-hash (hashlink::LinkedHashMap)
#[path = "linked.rs"]
pub mod linked;
/// Also reachable as `linked_hash_map::...` paths of the original crate.
pub mod linked_hash_map {
    pub use super::linked::*;
}
pub use linked::LinkedHashMap;

/// S-enr
#[path = "enr_mirror.rs"]
pub mod enr_mirror;

#[path = "smalllist.rs"]
pub mod smalllist;

/// S-hash (std::collections::HashMap, fnv::FnvHashMap)
#[path = "hashmap.rs"]
pub mod hashmap;

/// S-vec (arrayvec::ArrayVec)
#[path = "arrayvec.rs"]
pub mod arrayvec;

/// S-btree (std::collections::BTreeMap); `btree_map::{BTreeMap, Entry}` paths resolve too
#[path = "btree.rs"]
pub mod btree_map;

/// S-ctr (AES-128-CTR header masking)
#[path = "ctr.rs"]
pub mod ctr;

/// S-zero: `zeroize::Zeroize` (volatile writes + inline-asm barrier, which Kani cannot translate) is a
/// no-op; wiping key material is not a subject of any property.
pub mod zero {
    pub trait Zeroize {
        fn zeroize(&mut self);
    }
    impl<T: ?Sized> Zeroize for T {
        fn zeroize(&mut self) {}
    }
}

/// S-chan (tokio::sync::{mpsc, oneshot})
#[path = "chan.rs"]
pub mod chan;
