"""C19  Encryption nonces are never reused (message-nonce construction of a Session)."""
from vlib import *

PID = "C19"
LEVEL = "model_checking"
VALIDATE_STUBS = True
MOD = "handler::session::verif_c19::"
INJ = [("src/handler/session.rs", "c19_replay.rs", "verif_replay_c19")]

FUNCTIONS = ["handler::session::Session::{new, update, encrypt_message, decrypt_message}",
             "packet::PacketHeader::encode, packet::PacketKind::encode (Message)"]
BOUNDS = {"quick": "any Session state (counter < 2^32 - 4, any keys, old keys present or not); two encryptions separated by every "
                   "sequence of <= 2 operations from {re-key, inbound accepted by current key, inbound accepted by old key (rotation), "
                   "inbound rejected}; plus the one-step form (operations other than encryption leave the counter unchanged, encryption "
                   "advances it by one and prefixes the nonce with it) which extends the claim to histories of any length; RNG output arbitrary; "
                   "2-byte plaintexts; loops unwound 82"}
BOUNDS["thorough"] = BOUNDS["quick"]
OUTSIDE = ["more than 2^32 - 1 messages per Session object (the u32 counter wraps in release builds)",
           "id-nonces of WHOAREYOU packets, nonces of handshake and random packets: they are rand::random() values; 'never repeat' is a "
           "statement about the RNG and not decidable by a solver",
           "the call sites in the async Handler (send_request, send_response, replay_active_requests): not compilable by Kani; they all go through Session::encrypt_message"]
ASSUMPTIONS = [
    "S-aead: crypto::encrypt_message / decrypt_message replaced by a recording stub (kani::stub); AES-GCM itself is trusted",
    "S-rng: rand::random returns an arbitrary value of its type; uniqueness must therefore not rest on the RNG alone",
    "S-log, S-lock as in every check; pointer-validity checks off, panics/overflow/unwinding assertions on",
    "AEAD outcomes and the interleaved operation are concrete per harness (one harness per combination), all other data symbolic",
]

SEQS = ["c19_seq_consecutive", "c19_seq_rekey", "c19_seq_decrypt_current", "c19_seq_decrypt_old_rotates", "c19_seq_decrypt_rejected",
        "c19_seq_rekey_then_rotate_back", "c19_seq_rekey_then_rejected", "c19_seq_rekey_twice", "c19_seq_rotate_then_rekey"]
STEPS = ["c19_counter_kept_by_rekey", "c19_counter_kept_by_decrypt_current", "c19_counter_kept_by_decrypt_old",
         "c19_counter_kept_by_decrypt_rejected", "c19_counter_advances_and_prefixes_nonce"]


def prepare(sub, tier):
    apply_common_substitutions(sub)
    inject_harness(sub, "src/handler/session.rs", "c19_session.rs", "verif_c19")


def _dec(pb):
    return {"kani_any_values_in_call_order": [v if len(v) <= 16 else v[:16] + ["..."] for v in pb[:24]]}


def specs(tier, seed):
    S = []
    for n in SEQS:
        S.append(dict(harness=MOD + n, obligation="two encryptions under one key carry different nonces for every RNG outcome (%s)" % n[8:],
                      bounds="any session state, any keys, any RNG output", timeout=1200, mem_gb=8,
                      covers=(["same key for both messages"] if n in ("c19_seq_consecutive", "c19_seq_decrypt_current", "c19_seq_decrypt_rejected", "c19_seq_rekey_then_rotate_back") else []),
                      decode=_dec))
    for n in STEPS:
        S.append(dict(harness=MOD + n, obligation="one-step: " + n[4:].replace("_", " "), bounds="any session state", timeout=1200, mem_gb=8, decode=_dec))
    S.append(dict(harness=MOD + "c19_twin_must_fail", obligation="vacuity twin", bounds="-", timeout=1200, mem_gb=8, kind="twin"))
    return S


def replay(cases, tier, dst):
    return replay_cases(cases, tier, dst, INJ, "verif_replay_c19", once=True)


def replay_file(path):
    return replay_file_generic(path, INJ, "verif_replay_c19")
