"""C08  Closest-node and distance lookups are exact."""
import os, subprocess, time
from vlib import *

PID = "C08"
LEVEL = "model_checking"
MOD = "kbucket::verif_c08::"

FUNCTIONS = [
    "kbucket::ClosestBucketsIter::{new, next_in, next_out, <Iterator>::next}",
    "kbucket::BucketIndex::new", "kbucket::key::Key::{distance, log2_distance, from(NodeId)}",
    "uint U256::{from_big_endian, bit, leading_zeros, bitxor, cmp} as instantiated by construct_uint!",
    "kbucket::KBucketsTable::{closest_keys, closest_values_predicate, nodes_by_distances}, kbucket::ClosestIter::next (table harnesses)",
]
BOUNDS = {
    "quick": "bucket-order step: all 2^256 distances, last-yielded bucket index i concrete in {0,1,2,64,255} (zoom-in) and "
             "{0,1,64,254,255} (zoom-out); first yield / index / comparator / log2: all 256-bit inputs; loops unwound 258 "
             "(unwinding assertions on); table harnesses: 256 buckets, <=3 stored nodes in concrete buckets, symbolic ids",
    "thorough": "as quick plus the step obligations with the bucket index symbolic (all 256 values in one query)",
}
OUTSIDE = ["tables with more than 3 stored nodes per harness", "pending-slot application during iteration (C07)",
           "TVal = Enr (harnesses use TVal = u8)"]
ASSUMPTIONS = [
    "S-log: tracing macros are no-ops; S-lock: parking_lot::RwLock replaced by a single-threaded cell (no concurrency claimed)",
    "pointer-validity checks of CBMC are off (--no-memory-safety-checks); panics, overflow and unwinding assertions are on",
    "the bucket-order induction: states handed to a step harness are the reachable ones (ZoomIn(i): bit i of d set or d == 0, i == 0; "
    "ZoomOut(i): i == 0 or bit i unset); any counterexample is confirmed by running the real iterator from ClosestBucketsIter::new(d) natively",
    "lemma (z3/cvc5, QF_BV, 256 bits): reference bucket order implies strictly increasing XOR distance across buckets -- "
    "mathematics about the specification, not code",
]

_lemma = {}


def lemma_text(W=256):
    z = "(_ bv0 %d)" % W
    one = "(_ bv1 %d)" % W
    bv = "(_ BitVec %d)" % W
    return """(set-logic ALL)
(declare-const d {bv})
(declare-const x {bv})
(declare-const y {bv})
(declare-const p {bv})
(declare-const q {bv})
(declare-const m {bv})
(define-fun bitd ((i {bv})) Bool (= (bvand (bvlshr d i) {one}) {one}))
(assert (bvult p (_ bv{W} {W})))
(assert (bvult q (_ bv{W} {W})))
(assert (bvult m (_ bv{W} {W})))
; p = msb(x), q = msb(y): bucket indices of two stored keys (x = local xor key, non-zero)
(assert (= (bvlshr x p) {one}))
(assert (= (bvlshr y q) {one}))
(assert (=> (not (= d {z})) (= (bvlshr d m) {one})))
(assert (not (= p q)))
; reference order: msb(d) first, then set bits descending, then unset bits ascending
(define-fun cls ((i {bv})) Int (ite (and (not (= d {z})) (= i m)) 0 (ite (bitd i) 1 2)))
(define-fun before ((a {bv}) (b {bv})) Bool
  (or (< (cls a) (cls b))
      (and (= (cls a) 1) (= (cls b) 1) (bvugt a b))
      (and (= (cls a) 2) (= (cls b) 2) (bvult a b))))
(assert (before p q))
; negated claim: distance to the target (x xor d) strictly increases across buckets
(assert (not (bvult (bvxor x d) (bvxor y d))))
(check-sat)
""".format(bv=bv, one=one, z=z, W=W)


def prepare(sub, tier):
    apply_common_substitutions(sub)
    inject_harness(sub, "src/kbucket.rs", "c08_kbucket.rs", "verif_c08")
    # start the lemma in the background on both solvers
    d = os.path.dirname(sub.src)
    p = os.path.join(d, "c08_lemma.smt2")
    with open(p, "w") as f:
        f.write(lemma_text())
    _lemma["t0"] = time.time()
    _lemma["procs"] = {}
    for name, cmd in (("cvc5", ["cvc5", "--lang", "smt2", p]), ("z3", ["z3", p])):
        try:
            _lemma["procs"][name] = subprocess.Popen(cmd, stdout=subprocess.PIPE, stderr=subprocess.STDOUT, text=True)
        except OSError as e:
            _lemma["procs"][name] = None


def _dec_step(i):
    def f(pb):
        # order of kani::any(): w0..w3 (u64 LE), k (usize)   [+ i for the symbolic variant]
        return {"distance_words": [le_int(pb[j]) for j in range(4)], "k": le_int(pb[4]), "i": i if i is not None else le_int(pb[5])}
    return f


def _dec_first(pb):
    return {"distance_words": [le_int(pb[j]) for j in range(4)]}


def specs(tier, seed):
    S = []

    def add(name, obligation, bounds, timeout, mem=10, covers=(), decode=None, kind="prove"):
        S.append(dict(harness=MOD + name, obligation=obligation, bounds=bounds, timeout=timeout, mem_gb=mem,
                      covers=list(covers), decode=decode, kind=kind, want_values=decode is not None))
    add("c08_first_yield", "first yielded bucket = msb(distance), bucket 0 for zero distance", "all 2^256 distances", 600,
        covers=["zero distance reached", "non-zero distance reached"], decode=_dec_first)
    add("c08_bucket_index_is_msb", "BucketIndex::new(d) = msb(d), None iff d == 0", "all 2^256 distances", 600,
        covers=["bucket 0", "bucket 255"], decode=_dec_first)
    add("c08_step_start", "Start(i) yields i and continues zooming in from i", "all 2^256 distances", 600, decode=_dec_first)
    add("c08_step_done", "Done is absorbing", "all 2^256 distances", 600)
    for i in (0, 1, 2, 64, 255):
        add("c08_step_in_i%d" % i, "zoom-in step from last-yielded bucket %d: next set bit below, else turn around without repeating bucket 0" % i,
            "all 2^256 distances with a reachable ZoomIn(%d)" % i, 1500, mem=12, decode=_dec_step(i))
    for i in (0, 1, 64, 254, 255):
        add("c08_step_out_i%d" % i, "zoom-out step from last-yielded bucket %d: next unset bit above, else end" % i,
            "all 2^256 distances with a reachable ZoomOut(%d)" % i, 1500, mem=12, decode=_dec_step(i))
    add("c08_distance_order_is_bytewise_xor_order", "Ord on Key::distance = big-endian byte order of (id xor target)",
        "all triples of 32-byte ids", 1200, covers=["want == std::cmp::Ordering::Less", "want == std::cmp::Ordering::Equal"])
    add("c08_log2_distance_reference", "log2_distance = 256 - leading zeros of the xor, None iff equal; BucketIndex = log2 - 1; symmetry",
        "all pairs of 32-byte ids", 1200, covers=["want == Some(1)", "want == Some(256)", "want.is_none()"])
    add("c08_twin_must_fail", "vacuity twin (assert false after a zoom-out step)", "-", 1500, mem=12, kind="twin")
    if tier == "thorough":
        add("c08_step_in_symbolic", "zoom-in step, last-yielded bucket symbolic", "all 2^256 distances x all 256 indices", 6000, mem=24,
            decode=_dec_step(None))
        add("c08_step_out_symbolic", "zoom-out step, last-yielded bucket symbolic", "all 2^256 distances x all 256 indices", 6000, mem=24,
            decode=_dec_step(None))
    return S


def extra_obligations(tier, dst):
    out = []
    cap = 600
    verdicts = {}
    for name, pr in _lemma.get("procs", {}).items():
        if pr is None:
            verdicts[name] = "unavailable"
            continue
        try:
            o, _ = pr.communicate(timeout=max(1, cap - (time.time() - _lemma["t0"])))
            o = o.strip()
            if "(error" in o or "error" in o.lower():
                verdicts[name] = "error: " + o[:200]
            else:
                verdicts[name] = o.splitlines()[-1] if o else "no-output"
        except subprocess.TimeoutExpired:
            pr.kill()
            verdicts[name] = "timeout"
    wall = time.time() - _lemma.get("t0", time.time())
    rec = {"harness": "c08_lemma_bucket_order_implies_distance_order", "solver": "z3 4.8.12 + cvc5 1.0 (QF_BV, 256 bit)",
           "obligation": "keys in buckets visited in reference order have strictly increasing XOR distance to the target",
           "bounds": "unbounded in the key space (256-bit bit-vectors)", "verdict": str(verdicts), "wall_s": round(wall, 1),
           "stats": {}, "covers": {}, "error": None}
    vs = list(verdicts.values())
    if any(v == "sat" for v in vs):
        rec["discharged"] = False
    elif any(v == "unsat" for v in vs) and all(v in ("unsat", "timeout", "unavailable") for v in vs):
        rec["discharged"] = True
    else:
        rec["error"] = "solvers inconclusive: %s" % verdicts
    out.append(rec)
    return out


def replay(cases, tier, dst):
    src = native_copy(dst, [("src/kbucket.rs", "c08_replay.rs", "verif_replay_c08")])
    results = []
    runs = 0
    for c in cases:
        dec = c.get("decoded") or {}
        case = {"harness": c["harness"], "failed_checks": c["failed"], "distances": [dec.get("distance_words", [0, 0, 0, 0])],
                "decoded": dec}
        if dec.get("table"):
            case.update(dec["table"])
            case["table"] = True
        path = os.path.join(dst, "replay-%s.json" % c["harness"])
        with open(path, "w") as f:
            json.dump(case, f)
        outcome, klass, detail = "not-reproduced", None, ""
        for release in ([False, True] if tier == "thorough" else [False]):
            rc, lines, out = native_test(src, "verif_replay_c08", {"VERIF_REPLAY_FILE": path}, release=release)
            runs += 1
            if not any("VERIF-REPLAY done" in l for l in lines):
                outcome, detail = "replay-driver-failed", out[-600:]
                break
            hits = [l for l in lines if "reproduced class=" in l and "not-reproduced" not in l]
            if hits:
                outcome = "reproduced"
                klass = hits[0].split("class=")[1].split()[0]
                detail = hits[0]
                break
        results.append({"harness": c["harness"], "name": c["harness"], "case": case, "outcome": outcome, "klass": klass, "detail": detail})
    return {"results": results, "runs": runs}


def replay_file(path):
    dst, _ = fresh_copy("c08replay")
    try:
        src = native_copy(dst, [("src/kbucket.rs", "c08_replay.rs", "verif_replay_c08")])
        rc, lines, out = native_test(src, "verif_replay_c08", {"VERIF_REPLAY_FILE": os.path.abspath(path)})
        for l in lines:
            print(l)
        return 1 if any("reproduced class=" in l and "not-reproduced" not in l for l in lines) else 0
    finally:
        cleanup(dst)
