//! S-btree: `std::collections::BTreeMap` modelled as a key-sorted list over the fixed-capacity
//! in-struct list (std's B-tree node code did not leave symbolic execution in 700 s).
use super::smalllist::{self, SmallList, CAP};
use std::borrow::Borrow;

#[derive(Clone, Debug)]
pub struct BTreeMap<K, V> {
    pub items: SmallList<(K, V)>,
}
impl<K, V> Default for BTreeMap<K, V> {
    fn default() -> Self {
        BTreeMap { items: SmallList::new() }
    }
}
impl<K: Ord, V> BTreeMap<K, V> {
    pub fn new() -> Self {
        Self::default()
    }
    pub fn len(&self) -> usize {
        self.items.len()
    }
    pub fn is_empty(&self) -> bool {
        self.items.is_empty()
    }
    pub fn clear(&mut self) {
        self.items.clear()
    }
    /// (index of the key if present, else the index where it has to be inserted)
    fn locate<Q: ?Sized + Ord>(&self, k: &Q) -> Result<usize, usize>
    where
        K: Borrow<Q>,
    {
        for i in 0..CAP {
            if i >= self.items.len() {
                break;
            }
            match self.items[i].0.borrow().cmp(k) {
                std::cmp::Ordering::Equal => return Ok(i),
                std::cmp::Ordering::Greater => return Err(i),
                std::cmp::Ordering::Less => {}
            }
        }
        Err(self.items.len())
    }
    pub fn contains_key<Q: ?Sized + Ord>(&self, k: &Q) -> bool
    where
        K: Borrow<Q>,
    {
        self.locate(k).is_ok()
    }
    pub fn get<Q: ?Sized + Ord>(&self, k: &Q) -> Option<&V>
    where
        K: Borrow<Q>,
    {
        match self.locate(k) {
            Ok(i) => Some(&self.items[i].1),
            Err(_) => None,
        }
    }
    pub fn get_mut<Q: ?Sized + Ord>(&mut self, k: &Q) -> Option<&mut V>
    where
        K: Borrow<Q>,
    {
        match self.locate(k) {
            Ok(i) => Some(&mut self.items[i].1),
            Err(_) => None,
        }
    }
    pub fn insert(&mut self, k: K, v: V) -> Option<V> {
        match self.locate(&k) {
            Ok(i) => Some(std::mem::replace(&mut self.items[i].1, v)),
            Err(i) => {
                self.items.insert(i, (k, v));
                None
            }
        }
    }
    pub fn remove<Q: ?Sized + Ord>(&mut self, k: &Q) -> Option<V>
    where
        K: Borrow<Q>,
    {
        match self.locate(k) {
            Ok(i) => Some(self.items.remove(i).1),
            Err(_) => None,
        }
    }
    pub fn first_key_value(&self) -> Option<(&K, &V)> {
        self.items.first().map(|e| (&e.0, &e.1))
    }
    pub fn last_key_value(&self) -> Option<(&K, &V)> {
        self.items.last().map(|e| (&e.0, &e.1))
    }
    pub fn pop_first(&mut self) -> Option<(K, V)> {
        if self.items.is_empty() {
            None
        } else {
            Some(self.items.remove(0))
        }
    }
    pub fn pop_last(&mut self) -> Option<(K, V)> {
        self.items.pop()
    }
    pub fn retain<F: FnMut(&K, &mut V) -> bool>(&mut self, mut f: F) {
        self.items.retain(|e| f(&e.0, &mut e.1))
    }
    pub fn iter(&self) -> Iter<'_, K, V> {
        Iter { inner: self.items.iter() }
    }
    pub fn iter_mut(&mut self) -> IterMut<'_, K, V> {
        IterMut { inner: self.items.iter_mut() }
    }
    pub fn keys(&self) -> Keys<'_, K, V> {
        Keys { inner: self.items.iter() }
    }
    pub fn values(&self) -> Values<'_, K, V> {
        Values { inner: self.items.iter() }
    }
    pub fn values_mut(&mut self) -> ValuesMut<'_, K, V> {
        ValuesMut { inner: self.items.iter_mut() }
    }
    pub fn into_values(self) -> IntoValues<K, V> {
        IntoValues { inner: self.items.into_iter() }
    }
    pub fn into_keys(self) -> IntoKeys<K, V> {
        IntoKeys { inner: self.items.into_iter() }
    }
    pub fn entry(&mut self, k: K) -> Entry<'_, K, V> {
        match self.locate(&k) {
            Ok(i) => {
                // the addressed element is taken out into the entry object (one selection over the slots) so that
                // `get` / `get_mut` dereference a concrete location; it is written back when the entry is dropped
                let elem = self.items.take_at(i);
                Entry::Occupied(OccupiedEntry { map: self, idx: i, elem })
            }
            Err(i) => Entry::Vacant(VacantEntry { map: self, key: k, idx: i }),
        }
    }
}
pub struct Iter<'a, K, V> {
    inner: smalllist::Iter<'a, (K, V)>,
}
impl<'a, K, V> Iterator for Iter<'a, K, V> {
    type Item = (&'a K, &'a V);
    fn next(&mut self) -> Option<Self::Item> {
        match self.inner.next() {
            Some(e) => Some((&e.0, &e.1)),
            None => None,
        }
    }
}
pub struct IterMut<'a, K, V> {
    inner: smalllist::IterMut<'a, (K, V)>,
}
impl<'a, K, V> Iterator for IterMut<'a, K, V> {
    type Item = (&'a K, &'a mut V);
    fn next(&mut self) -> Option<Self::Item> {
        match self.inner.next() {
            Some(e) => Some((&e.0, &mut e.1)),
            None => None,
        }
    }
}
pub struct Keys<'a, K, V> {
    inner: smalllist::Iter<'a, (K, V)>,
}
impl<'a, K, V> Iterator for Keys<'a, K, V> {
    type Item = &'a K;
    fn next(&mut self) -> Option<&'a K> {
        match self.inner.next() {
            Some(e) => Some(&e.0),
            None => None,
        }
    }
}
pub struct Values<'a, K, V> {
    inner: smalllist::Iter<'a, (K, V)>,
}
impl<'a, K, V> Iterator for Values<'a, K, V> {
    type Item = &'a V;
    fn next(&mut self) -> Option<&'a V> {
        match self.inner.next() {
            Some(e) => Some(&e.1),
            None => None,
        }
    }
}
pub struct ValuesMut<'a, K, V> {
    inner: smalllist::IterMut<'a, (K, V)>,
}
impl<'a, K, V> Iterator for ValuesMut<'a, K, V> {
    type Item = &'a mut V;
    fn next(&mut self) -> Option<&'a mut V> {
        match self.inner.next() {
            Some(e) => Some(&mut e.1),
            None => None,
        }
    }
}
pub struct IntoValues<K, V> {
    inner: smalllist::IntoIter<(K, V)>,
}
impl<K, V> Iterator for IntoValues<K, V> {
    type Item = V;
    fn next(&mut self) -> Option<V> {
        match self.inner.next() {
            Some(e) => Some(e.1),
            None => None,
        }
    }
}
pub struct IntoKeys<K, V> {
    inner: smalllist::IntoIter<(K, V)>,
}
impl<K, V> Iterator for IntoKeys<K, V> {
    type Item = K;
    fn next(&mut self) -> Option<K> {
        match self.inner.next() {
            Some(e) => Some(e.0),
            None => None,
        }
    }
}
impl<'a, K: Ord, V> IntoIterator for &'a BTreeMap<K, V> {
    type Item = (&'a K, &'a V);
    type IntoIter = Iter<'a, K, V>;
    fn into_iter(self) -> Iter<'a, K, V> {
        self.iter()
    }
}
impl<K, V> IntoIterator for BTreeMap<K, V> {
    type Item = (K, V);
    type IntoIter = smalllist::IntoIter<(K, V)>;
    fn into_iter(self) -> Self::IntoIter {
        self.items.into_iter()
    }
}
impl<K: Ord, V> std::iter::FromIterator<(K, V)> for BTreeMap<K, V> {
    fn from_iter<I: IntoIterator<Item = (K, V)>>(it: I) -> Self {
        let mut m = BTreeMap::default();
        for (k, v) in it {
            m.insert(k, v);
        }
        m
    }
}
impl<K: Ord, V> Extend<(K, V)> for BTreeMap<K, V> {
    fn extend<I: IntoIterator<Item = (K, V)>>(&mut self, it: I) {
        for (k, v) in it {
            self.insert(k, v);
        }
    }
}

pub enum Entry<'a, K, V> {
    Occupied(OccupiedEntry<'a, K, V>),
    Vacant(VacantEntry<'a, K, V>),
}
pub struct OccupiedEntry<'a, K, V> {
    map: &'a mut BTreeMap<K, V>,
    idx: usize,
    elem: Option<(K, V)>,
}
pub struct VacantEntry<'a, K, V> {
    map: &'a mut BTreeMap<K, V>,
    key: K,
    idx: usize,
}
impl<'a, K, V> Drop for OccupiedEntry<'a, K, V> {
    fn drop(&mut self) {
        if let Some(e) = self.elem.take() {
            self.map.items.put_at(self.idx, e);
        }
    }
}
impl<'a, K: Ord, V> OccupiedEntry<'a, K, V> {
    pub fn key(&self) -> &K {
        &self.elem.as_ref().unwrap().0
    }
    pub fn get(&self) -> &V {
        &self.elem.as_ref().unwrap().1
    }
    pub fn get_mut(&mut self) -> &mut V {
        &mut self.elem.as_mut().unwrap().1
    }
    pub fn into_mut(mut self) -> &'a mut V {
        let i = self.idx;
        if let Some(e) = self.elem.take() {
            self.map.items.put_at(i, e);
        }
        let m: *mut BTreeMap<K, V> = self.map;
        unsafe { &mut (&mut (*m).items)[i].1 }
    }
    pub fn insert(&mut self, v: V) -> V {
        std::mem::replace(&mut self.elem.as_mut().unwrap().1, v)
    }
    pub fn remove(self) -> V {
        self.remove_entry().1
    }
    pub fn remove_entry(mut self) -> (K, V) {
        let e = self.elem.take().unwrap();
        let i = self.idx;
        // the slot is empty: close the gap
        self.map.items.close_gap(i);
        e
    }
}
impl<'a, K: Ord, V> VacantEntry<'a, K, V> {
    pub fn key(&self) -> &K {
        &self.key
    }
    pub fn into_key(self) -> K {
        self.key
    }
    pub fn insert(self, v: V) -> &'a mut V {
        let i = self.idx;
        self.map.items.insert(i, (self.key, v));
        &mut self.map.items[i].1
    }
}
impl<'a, K: Ord, V> Entry<'a, K, V> {
    pub fn or_insert(self, v: V) -> &'a mut V {
        match self {
            Entry::Occupied(o) => o.into_mut(),
            Entry::Vacant(e) => e.insert(v),
        }
    }
    pub fn or_insert_with<F: FnOnce() -> V>(self, f: F) -> &'a mut V {
        match self {
            Entry::Occupied(o) => o.into_mut(),
            Entry::Vacant(e) => e.insert(f()),
        }
    }
    pub fn or_default(self) -> &'a mut V
    where
        V: Default,
    {
        match self {
            Entry::Occupied(o) => o.into_mut(),
            Entry::Vacant(e) => e.insert(V::default()),
        }
    }
    pub fn and_modify<F: FnOnce(&mut V)>(mut self, f: F) -> Self {
        if let Entry::Occupied(o) = &mut self {
            f(o.get_mut());
        }
        self
    }
    pub fn key(&self) -> &K {
        match self {
            Entry::Occupied(o) => o.key(),
            Entry::Vacant(e) => e.key(),
        }
    }
}
