//! C20 harnesses — child module of `crate::service` in the scratch copy, with `tokio::sync::{mpsc,
//! oneshot}` replaced crate-wide by the queue model (S-chan).  `TalkRequest` is built directly (it
//! has no constructor; `Service::handle_rpc_request` fills the same fields).
#![allow(dead_code, unused_imports)]
use super::*;
use crate::verif_shims::chan::mpsc as vmpsc;
use std::net::{Ipv4Addr, SocketAddr, SocketAddrV4};

fn any_talk() -> (TalkRequest, vmpsc::UnboundedReceiver<HandlerIn>, [u8; 2], NodeId, SocketAddr) {
    let (tx, rx) = vmpsc::unbounded_channel::<HandlerIn>();
    let idb: [u8; 2] = kani::any();
    let nid: [u8; 32] = kani::any();
    let node_id = NodeId::new(&nid);
    let socket_addr = SocketAddr::V4(SocketAddrV4::new(Ipv4Addr::from(kani::any::<[u8; 4]>()), kani::any()));
    let req = TalkRequest {
        id: RequestId(idb.to_vec()),
        node_address: NodeAddress { socket_addr, node_id },
        protocol: vec![kani::any(), kani::any()],
        body: vec![kani::any()],
        sender: Some(tx),
    };
    (req, rx, idb, node_id, socket_addr)
}

/// exactly one response is queued, with the request's id, to the address it came from, carrying `want`
fn expect_single_response(rx: &vmpsc::UnboundedReceiver<HandlerIn>, idb: [u8; 2], node_id: NodeId, addr: SocketAddr, want: &[u8]) {
    assert!(rx.chan.len() == 1, "not exactly one TALK response");
    // the popped message is never dropped: the drop glue of `HandlerIn` (it can embed node records) is what
    // CBMC cannot get through
    let m = std::mem::ManuallyDrop::new(rx.chan.pop());
    match &*m {
        Some(HandlerIn::Response(to, resp)) => {
            assert!(to.node_id == node_id && to.socket_addr == addr, "response sent to another node address");
            assert!(resp.id.0[..] == idb[..], "response carries another request id");
            match &resp.body {
                ResponseBody::Talk { response } => assert!(response[..] == *want, "response payload differs"),
                _ => assert!(false, "not a TALK response"),
            }
        }
        _ => assert!(false, "not a response message"),
    }
}

#[kani::proof]
#[kani::unwind(2)]
fn c20_respond_sends_exactly_one() {
    let (req, rx, idb, node_id, addr) = any_talk();
    let payload: [u8; 3] = kani::any();
    let r = req.respond(payload.to_vec()); // consumes the request: its Drop runs here too
    assert!(r.is_ok(), "respond failed while the service is running");
    expect_single_response(&rx, idb, node_id, addr, &payload);
    assert!(rx.chan.len() == 0, "a second response was sent");
    std::mem::forget(rx);
}

#[kani::proof]
#[kani::unwind(2)]
fn c20_drop_sends_exactly_one_empty() {
    let (req, rx, idb, node_id, addr) = any_talk();
    drop(req);
    expect_single_response(&rx, idb, node_id, addr, &[]);
    assert!(rx.chan.len() == 0);
    std::mem::forget(rx);
}

#[kani::proof]
#[kani::unwind(2)]
fn c20_after_shutdown_is_harmless() {
    let (req, rx, _idb, _node_id, _addr) = any_talk();
    let (req2, rx2, _i2, _n2, _a2) = any_talk();
    drop(rx); // the handler is gone
    drop(rx2);
    let payload: [u8; 3] = kani::any();
    let r = req.respond(payload.to_vec());
    assert!(matches!(r, Err(ResponseError::ChannelClosed)), "respond after shutdown must return ChannelClosed");
    drop(req2); // must not panic (a panic is an assertion failure under Kani)
}

#[kani::proof]
#[kani::unwind(2)]
fn c20_accessors() {
    let (req, rx, idb, node_id, _addr) = any_talk();
    assert!(req.id().0[..] == idb[..] && *req.node_id() == node_id);
    assert!(req.protocol().len() == 2 && req.body().len() == 1);
    std::mem::forget(req);
    std::mem::forget(rx);
}

#[kani::proof]
#[kani::unwind(2)]
fn c20_twin_must_fail() {
    let (req, rx, idb, node_id, addr) = any_talk();
    drop(req);
    expect_single_response(&rx, idb, node_id, addr, &[]);
    std::mem::forget(rx);
    assert!(false, "twin");
}
