#!/usr/bin/env python3
"""Common machinery for the solver-based checks of sigp/discv5 (see /verif/DESIGN.md section 1).

Every check
  1. copies /repo's *current working tree* to a scratch directory outside /repo and /verif,
  2. redirects a fixed list of environment imports (logging, locks, channels, std containers, crypto
     primitives) to the models in /verif/shims -- pattern-checked, a pattern that no longer matches
     makes the check inconclusive (exit 2),
  3. injects harness modules from /verif/harness as child modules (so they see private items),
  4. runs `cargo kani` (rustc MIR -> goto -> CBMC -> CaDiCaL) per harness group, in parallel,
  5. parses CBMC's per-property results; OOM / timeout / ICE => inconclusive, never success,
  6. replays counterexamples natively (plain cargo test on a second, unmodified copy),
  7. writes /verif/evidence/<id>.json and removes the scratch copies.
"""
import json, os, re, shutil, signal, subprocess, sys, time, hashlib, resource, threading

VERIF = os.path.dirname(os.path.dirname(os.path.abspath(__file__)))
REPO = os.environ.get("VERIF_REPO", "/repo")
SCRATCH_ROOT = os.environ.get("VERIF_SCRATCH", "/tmp/verif-scratch")
KANI_ENV = dict(os.environ, CARGO_NET_OFFLINE="true", CARGO_TERM_COLOR="never")
# the checks must not inherit a RUSTFLAGS / toolchain override meant for the repository's own build
for _k in ("RUSTFLAGS", "RUSTUP_TOOLCHAIN", "CARGO_TARGET_DIR", "CARGO_BUILD_TARGET_DIR"):
    KANI_ENV.pop(_k, None)

EXIT_OK, EXIT_VIOLATION, EXIT_INCONCLUSIVE = 0, 1, 2


class Inconclusive(Exception):
    pass


def log(*a):
    print("[verif]", *a, flush=True)


def sh(cmd, cwd=None, env=None, timeout=None, check=False):
    p = subprocess.run(cmd, cwd=cwd, env=env, shell=isinstance(cmd, str), stdout=subprocess.PIPE,
                       stderr=subprocess.STDOUT, text=True, timeout=timeout)
    if check and p.returncode != 0:
        raise Inconclusive("command failed (%s): %s\n%s" % (p.returncode, cmd, p.stdout[-4000:]))
    return p.returncode, p.stdout


# ------------------------------------------------------------------------------------------------
# scratch copies
# ------------------------------------------------------------------------------------------------
def repo_fingerprint():
    """sha256 over the source files of /repo's working tree (reported in evidence)."""
    h = hashlib.sha256()
    for root, dirs, files in os.walk(os.path.join(REPO, "src")):
        dirs.sort()
        for f in sorted(files):
            p = os.path.join(root, f)
            h.update(p.encode())
            with open(p, "rb") as fh:
                h.update(fh.read())
    return h.hexdigest()[:16]


def fresh_copy(tag):
    dst = os.path.join(SCRATCH_ROOT, "%s-%d" % (tag, os.getpid()))
    if os.path.exists(dst):
        shutil.rmtree(dst)
    os.makedirs(dst)
    src = os.path.join(dst, "src-copy")
    rc, out = sh(["rsync", "-a", "--exclude", "/target", "--exclude", "/.git", "--exclude", "/examples",
                  REPO + "/", src + "/"])
    if rc != 0:
        raise Inconclusive("rsync failed: " + out)
    os.makedirs(os.path.join(src, ".cargo"), exist_ok=True)
    with open(os.path.join(src, ".cargo", "config.toml"), "w") as f:
        f.write("[net]\noffline = true\n")
    return dst, src


def cleanup(path):
    shutil.rmtree(path, ignore_errors=True)
    try:
        os.rmdir(SCRATCH_ROOT)
    except OSError:
        pass


class Subst:
    """Pattern-checked textual redirection of imports in the scratch copy."""

    def __init__(self, src):
        self.src = src
        self.applied = []

    def _rw(self, rel, fn):
        p = os.path.join(self.src, rel)
        with open(p) as f:
            s = f.read()
        s2 = fn(s)
        with open(p, "w") as f:
            f.write(s2)

    def regex(self, rel, pat, repl, name, min_count=1, flags=re.M):
        def fn(s):
            s2, n = re.subn(pat, repl, s, flags=flags)
            if n < min_count:
                raise Inconclusive("substitution %s: pattern %r not found in %s (the source no longer "
                                   "has the import this model replaces)" % (name, pat, rel))
            self.applied.append("%s@%s x%d" % (name, rel, n))
            return s2
        self._rw(rel, fn)

    def exact(self, rel, old, new, name, count=1):
        def fn(s):
            n = s.count(old)
            if n != count:
                raise Inconclusive("substitution %s: expected %d occurrence(s) of %r in %s, found %d"
                                   % (name, count, old, rel, n))
            self.applied.append("%s@%s x%d" % (name, rel, n))
            return s.replace(old, new)
        self._rw(rel, fn)

    def append(self, rel, text, name):
        self._rw(rel, lambda s: s + "\n" + text + "\n")
        self.applied.append("%s@%s" % (name, rel))

    def all_rs(self):
        out = []
        for root, dirs, files in os.walk(os.path.join(self.src, "src")):
            for f in files:
                if f.endswith(".rs"):
                    out.append(os.path.relpath(os.path.join(root, f), self.src))
        return sorted(out)


def apply_common_substitutions(sub):
    """S-log and S-lock everywhere; the shim module at the crate root."""
    sub.append("src/lib.rs",
               '#[path = "%s/shims/mod.rs"]\npub(crate) mod verif_shims;' % VERIF, "shim-root")
    n_log = n_lock = 0
    for rel in sub.all_rs():
        with open(os.path.join(sub.src, rel)) as f:
            s = f.read()
        if re.search(r"^use tracing::", s, re.M):
            sub.regex(rel, r"^use tracing::", "use crate::verif_shims::log::", "S-log")
            n_log += 1
        if re.search(r"^use parking_lot::RwLock;", s, re.M):
            sub.regex(rel, r"^use parking_lot::RwLock;", "use crate::verif_shims::lock::RwLock;", "S-lock")
            n_lock += 1
    if n_log == 0 or n_lock == 0:
        raise Inconclusive("S-log/S-lock: no tracing / parking_lot imports found")


def inject_harness(sub, host_rel, harness_file, modname):
    """Compile /verif/harness/<file> as a child module of the module defined by host_rel."""
    path = os.path.join(VERIF, "harness", harness_file)
    if not os.path.exists(path):
        raise Inconclusive("missing harness file " + path)
    sub.append(host_rel, '#[cfg(kani)]\n#[path = "%s"]\nmod %s;' % (path, modname), "harness:" + harness_file)


# ------------------------------------------------------------------------------------------------
# running Kani
# ------------------------------------------------------------------------------------------------
def _limit(mem_gb):
    def f():
        os.setsid()
        if mem_gb:
            b = int(mem_gb * (1 << 30))
            resource.setrlimit(resource.RLIMIT_AS, (b, b))
    return f


class KaniRun:
    """One `cargo kani` process verifying one harness."""

    def __init__(self, src, target_dir, harness, logdir, unwindset=None, timeout=600, mem_gb=16,
                 extra=None, playback=False):
        self.src, self.target_dir, self.harness = src, target_dir, harness
        self.timeout, self.mem_gb = timeout, mem_gb
        self.logfile = os.path.join(logdir, harness + ".log")
        cmd = ["cargo", "kani", "-Z", "stubbing", "-Z", "unstable-options", "--harness", harness, "--exact",
               "--target-dir", target_dir, "--no-memory-safety-checks"]
        if playback:
            cmd += ["-Z", "concrete-playback", "--concrete-playback", "print"]
        if extra:
            cmd += extra
        if unwindset:
            cmd += ["--cbmc-args", "--unwindset", ",".join(unwindset)]
        self.cmd = cmd
        self.proc = None
        self.t0 = None
        self.wall = None
        self.status = None  # 'timeout' | 'done'

    def start(self):
        self.t0 = time.time()
        self.fh = open(self.logfile, "w")
        self.proc = subprocess.Popen(self.cmd, cwd=self.src, env=KANI_ENV, stdout=self.fh,
                                     stderr=subprocess.STDOUT, preexec_fn=_limit(self.mem_gb))

    def poll(self):
        if self.status:
            return True
        rc = self.proc.poll()
        if rc is not None:
            self.status = "done"
            self.wall = time.time() - self.t0
            self.fh.close()
            return True
        if time.time() - self.t0 > self.timeout:
            try:
                os.killpg(self.proc.pid, signal.SIGKILL)
            except ProcessLookupError:
                pass
            self.proc.wait()
            self.status = "timeout"
            self.wall = time.time() - self.t0
            self.fh.close()
            return True
        return False

    def kill(self):
        if self.proc and self.proc.poll() is None:
            try:
                os.killpg(self.proc.pid, signal.SIGKILL)
            except ProcessLookupError:
                pass
            self.proc.wait()

    def output(self):
        with open(self.logfile, errors="replace") as f:
            return f.read()


CHECK_RE = re.compile(r"^Check (\d+): (\S+)\n\s+- Status: (\w+)\n\s+- Description: \"(.*)\"\n(?:\s+- Location: (.*)\n)?", re.M)


def parse_kani_output(text):
    """Returns dict with verdict, failed checks, cover results, stats."""
    res = {"verdict": None, "failed": [], "covers": [], "n_checks": 0, "undetermined": [],
           "unwinding_failed": False, "stats": {}, "playback": None, "error": None}
    m = re.search(r"^VERIFICATION:- (\w+)", text, re.M)
    if m:
        res["verdict"] = m.group(1)
    for cm in CHECK_RE.finditer(text):
        num, name, status, desc, loc = cm.groups()
        res["n_checks"] += 1
        if ".cover." in name or name.endswith(".cover") or "cover" in name.split(".")[-2:-1]:
            res["covers"].append({"name": name, "status": status, "desc": desc, "loc": loc})
            continue
        if status == "FAILURE":
            res["failed"].append({"name": name, "desc": desc, "loc": loc})
            if "unwinding assertion" in desc or ".unwind." in name:
                res["unwinding_failed"] = True
        elif status in ("UNDETERMINED", "UNREACHABLE", "ERROR"):
            if status != "UNREACHABLE":
                res["undetermined"].append({"name": name, "desc": desc, "status": status})
    # terse summary of failed checks also appears as "Failed Checks: ..."
    for fm in re.finditer(r"^Failed Checks: (.*)$", text, re.M):
        d = fm.group(1)
        if not any(d == f["desc"] for f in res["failed"]):
            res["failed"].append({"name": "?", "desc": d, "loc": None})
        if "unwinding assertion" in d:
            res["unwinding_failed"] = True
    st = res["stats"]
    m = re.search(r"Generated (\d+) VCC\(s\), (\d+) remaining after simplification", text)
    if m:
        st["vccs"], st["vccs_remaining"] = int(m.group(1)), int(m.group(2))
    m = re.search(r"^(\d+) variables, (\d+) clauses", text, re.M)
    if m:
        st["sat_vars"], st["sat_clauses"] = int(m.group(1)), int(m.group(2))
    m = re.search(r"Runtime Symex: ([\d.e+-]+)s", text)
    if m:
        st["symex_s"] = float(m.group(1))
    ms = re.findall(r"Runtime Solver: ([\d.e+-]+)s", text)
    if ms:
        st["solver_s"] = round(sum(float(x) for x in ms), 3)
    m = re.search(r"Runtime decision procedure: ([\d.e+-]+)s", text)
    if m:
        st["decision_s"] = float(m.group(1))
    m = re.search(r"Verification Time: ([\d.e+-]+)s", text)
    if m:
        st["verification_s"] = float(m.group(1))
    st["stubs"] = re.findall(r"^\s*- Stub: (.*)$", text, re.M)
    # concrete playback: byte vectors in the order of kani::any() calls
    pm = re.search(r"let concrete_vals: Vec<Vec<u8>> = vec!\[(.*?)\n\s*\];", text, re.S)
    if pm:
        vals = []
        for vm in re.finditer(r"vec!\[([\d,\s]*)\]", pm.group(1)):
            body = vm.group(1).strip()
            vals.append([int(x) for x in body.replace(" ", "").split(",") if x != ""])
        res["playback"] = vals
    if re.search(r"error: internal compiler error|Kani unexpectedly panicked|thread 'rustc' panicked", text):
        res["error"] = "ICE"
    elif re.search(r"^error(\[E\d+\])?:", text, re.M) and res["verdict"] is None:
        res["error"] = "compile"
    elif re.search(r"Status: ERROR|CBMC failed|out of memory|std::bad_alloc|memory allocation", text, re.I) and res["verdict"] != "SUCCESSFUL":
        res["error"] = "cbmc-error"
    return res


def le_int(bs):
    return int.from_bytes(bytes(bs), "little")


def run_harnesses(src, specs, logdir, jobs=8, build_first=True, build_timeout=900, _second_pass=False):
    """specs: list of dict(harness=..., unwindset=[...], timeout=.., mem_gb=.., extra=[..]).
    Builds once (codegen only) into a master target dir, then gives each concurrently running
    process a hard-linked copy of it.  Returns {harness: (KaniRun, parsed)}."""
    os.makedirs(logdir, exist_ok=True)
    master = os.path.join(os.path.dirname(src), "target-master")
    if build_first:
        t0 = time.time()
        cmd = ["cargo", "kani", "-Z", "stubbing", "-Z", "unstable-options", "--only-codegen",
               "--target-dir", master]
        rc, out = sh(cmd, cwd=src, env=KANI_ENV, timeout=build_timeout)
        with open(os.path.join(logdir, "_build.log"), "w") as f:
            f.write(out)
        if rc != 0:
            if re.search(r"internal compiler error|unexpectedly panicked", out):
                raise Inconclusive("Kani compiler ICE while building the scratch copy; see %s" % logdir)
            raise Inconclusive("the scratch copy does not compile under Kani (harness and source out of sync?):\n"
                               + "\n".join(out.splitlines()[-60:]))
        log("kani codegen of scratch copy: %.0fs" % (time.time() - t0))
    results = {}
    pending = list(specs)
    running = []
    slot_dirs = []
    free_slots = []
    nslots = min(jobs, len(specs))
    for i in range(nslots):
        d = os.path.join(os.path.dirname(src), "target-slot%d" % i)
        if not os.path.exists(d):
            rc, out = sh(["cp", "-al", master, d])
            if rc != 0:
                raise Inconclusive("cp -al failed: " + out)
        free_slots.append(d)
    mem_budget = float(os.environ.get("VERIF_MEM_GB", "52"))
    mem_used = 0.0
    while pending or running:
        # start what fits
        i = 0
        while i < len(pending) and free_slots:
            sp = pending[i]
            need = sp.get("mem_gb", 12)
            if mem_used + need <= mem_budget or not running:
                pending.pop(i)
                slot = free_slots.pop()
                kr = KaniRun(src, slot, sp["harness"], logdir, unwindset=sp.get("unwindset"),
                             timeout=sp.get("timeout", 600), mem_gb=need, extra=sp.get("extra"),
                             playback=sp.get("playback", False))
                kr.slot = slot
                kr.spec = sp
                kr.start()
                mem_used += need
                running.append(kr)
            else:
                i += 1
        time.sleep(0.5)
        for kr in list(running):
            if kr.poll():
                running.remove(kr)
                free_slots.append(kr.slot)
                mem_used -= kr.spec.get("mem_gb", 12)
                parsed = parse_kani_output(kr.output())
                if kr.status == "timeout":
                    parsed["error"] = "timeout(%ds)" % kr.timeout
                results[kr.harness] = (kr, parsed)
                log("  %-46s %-12s %6.1fs %s" % (kr.harness, parsed["error"] or parsed["verdict"], kr.wall,
                                                 ("vars=%s" % parsed["stats"].get("sat_vars")) if parsed["stats"].get("sat_vars") else ""))
    # repair rounds: (a) a harness may declare `auto_unwind=N`: loops named by `auto_unwind_match` that hit the
    # harness-wide bound (CBMC's "Unwinding loop <id> iteration <k>" lines) get the per-loop bound N;
    # (b) a harness whose solver ran out of memory under its (small) reservation is re-run alone with most of
    # the machine.  Only what is still undecided after these rounds is reported inconclusive.
    if not _second_pass:
        big = float(os.environ.get("VERIF_BIG_MEM_GB", "48"))
        for _round in range(4):
            todo = []
            for sp in specs:
                kr, pr = results[sp["harness"]]
                if pr["error"] == "cbmc-error" and sp.get("mem_gb", 12) < big:
                    sp["mem_gb"] = big
                    sp["timeout"] = int(sp.get("timeout", 600) * 1.5)
                    todo.append(sp)
                elif sp.get("auto_unwind") and pr["unwinding_failed"] and not pr["error"]:
                    best = {}
                    for m in re.finditer(r"Unwinding loop (\S+) iteration (\d+)", kr.output()):
                        best[m.group(1)] = max(best.get(m.group(1), 0), int(m.group(2)))
                    cur = list(sp.get("unwindset") or [])
                    have = set(x.split(":")[0] for x in cur)
                    pats = sp.get("auto_unwind_match") or ["generic_array"]
                    add = [k for k in best if k not in have and any(p in k for p in pats)]
                    if add:
                        sp["unwindset"] = cur + ["%s:%d" % (i, sp["auto_unwind"]) for i in add]
                        todo.append(sp)
            if not todo:
                break
            log("repair round %d: re-running %d harness(es) (per-loop unwind bounds raised / more memory)" % (_round + 1, len(todo)))
            r2 = run_harnesses(src, todo, os.path.join(logdir, "round%d" % (_round + 1)), jobs=jobs, build_first=False, _second_pass=True)
            for h, v in r2.items():
                results[h] = v
    # second pass: harnesses that FAILED are re-run with concrete playback to obtain the values of the
    # counterexample (asking CBMC for traces on the first pass makes every cover! witness emit a full
    # trace, which is slow and can exhaust the driver's memory)
    if not _second_pass:
        again = []
        for sp in specs:
            kr, pr = results[sp["harness"]]
            if pr["verdict"] == "FAILED" and not pr["error"] and sp.get("kind") != "twin" and sp.get("want_values"):
                sp2 = dict(sp, playback=True, timeout=int(sp.get("timeout", 600) * 2), mem_gb=max(sp.get("mem_gb", 12), 24))
                again.append(sp2)
        if again:
            log("re-running %d failed harness(es) with concrete playback" % len(again))
            r2 = run_harnesses(src, again, os.path.join(logdir, "playback"), jobs=jobs, build_first=False, _second_pass=True)
            for h, (kr2, pr2) in r2.items():
                if pr2["playback"]:
                    results[h][1]["playback"] = pr2["playback"]
    return results


# ------------------------------------------------------------------------------------------------
# evidence / findings
# ------------------------------------------------------------------------------------------------
def load_known_findings():
    p = os.path.join(VERIF, "known_findings.json")
    if not os.path.exists(p):
        return {"known": [], "fixed": []}
    with open(p) as f:
        return json.load(f)


def write_evidence(pid, tier, seed, level, coverage, assumptions, wall, violations):
    os.makedirs(os.path.join(VERIF, "evidence"), exist_ok=True)
    ev = {"property_id": pid, "tier": tier, "seed": seed, "level": level, "coverage": coverage,
          "assumptions": assumptions, "wall_s": round(wall, 2), "violations": violations}
    with open(os.path.join(VERIF, "evidence", pid + ".json"), "w") as f:
        json.dump(ev, f, indent=1, sort_keys=False)
        f.write("\n")
    return ev


def save_replay(pid, name, obj):
    d = os.path.join(VERIF, "replays", pid)
    os.makedirs(d, exist_ok=True)
    p = os.path.join(d, name + ".json")
    with open(p, "w") as f:
        json.dump(obj, f, indent=1)
        f.write("\n")
    return p


# ------------------------------------------------------------------------------------------------
# native replay: plain `cargo test` on a second, otherwise unmodified copy of /repo's working tree
# ------------------------------------------------------------------------------------------------
def native_copy(dst, injections):
    """injections: list of (host_rel, replay_file, modname). Only `#[cfg(test)] mod` lines are added."""
    src = os.path.join(dst, "native-copy")
    if not os.path.exists(src):
        rc, out = sh(["rsync", "-a", "--exclude", "/target", "--exclude", "/.git", REPO + "/", src + "/"])
        if rc != 0:
            raise Inconclusive("rsync failed: " + out)
        os.makedirs(os.path.join(src, ".cargo"), exist_ok=True)
        with open(os.path.join(src, ".cargo", "config.toml"), "w") as f:
            f.write("[net]\noffline = true\n")
        # warm start from the repository's own build output when it exists (dependencies only; optional)
        tsrc = os.path.join(REPO, "target", "debug")
        if os.path.isdir(os.path.join(tsrc, "deps")) and not os.environ.get("VERIF_NO_WARM"):
            os.makedirs(os.path.join(src, "target"), exist_ok=True)
            sh(["cp", "-a", tsrc, os.path.join(src, "target", "debug")])
        sub = Subst(src)
        for host_rel, replay_file, modname in injections:
            path = os.path.join(VERIF, "replay", replay_file)
            sub.append(host_rel, '#[cfg(test)]\n#[path = "%s"]\nmod %s;' % (path, modname), "replay:" + replay_file)
    return src


def native_test(src, test_filter, env_extra, release=False, timeout=1500):
    env = dict(KANI_ENV)
    env.update(env_extra)
    cmd = ["cargo", "test", "--offline", "--lib"] + (["--release"] if release else []) + \
          [test_filter, "--", "--nocapture", "--test-threads", "1"]
    rc, out = sh(cmd, cwd=src, env=env, timeout=timeout)
    lines = [l.strip() for l in out.splitlines() if "VERIF-REPLAY" in l]
    return rc, lines, out


def replay_cases(cases, tier, dst, injections, test_filter, make_case=None, once=False):
    """Runs the native driver once per failing harness; the driver prints
    `VERIF-REPLAY reproduced class=<k> ...` lines and a final `VERIF-REPLAY done`."""
    src = native_copy(dst, injections)
    results, runs = [], 0
    shared = None
    for c in cases:
        case = {"harness": c["harness"], "failed_checks": c["failed"], "decoded": c.get("decoded")}
        if once and shared is not None:
            # the native driver does not depend on the counterexample values: one run serves all cases
            case["native"] = shared.get("native")
            results.append({"harness": c["harness"], "name": c["harness"], "case": case, "outcome": shared["outcome"],
                            "klass": shared["klass"], "detail": shared["detail"]})
            continue
        if make_case:
            case.update(make_case(c) or {})
        path = os.path.join(dst, "replay-%s.json" % c["harness"])
        with open(path, "w") as f:
            json.dump(case, f)
        outcome, klass, detail = "not-reproduced", None, ""
        for release in ([False, True] if tier == "thorough" else [False]):
            try:
                rc, lines, out = native_test(src, test_filter, {"VERIF_REPLAY_FILE": path, "VERIF_REPLAY_HARNESS": c["harness"]},
                                             release=release)
            except subprocess.TimeoutExpired:
                outcome, detail = "replay-driver-timeout", ""
                break
            runs += 1
            if not any("VERIF-REPLAY done" in l for l in lines):
                outcome, detail = "replay-driver-failed", out[-800:]
                break
            hits = [l for l in lines if "reproduced class=" in l and "not-reproduced" not in l]
            if hits:
                outcome = "reproduced"
                klass = hits[0].split("class=")[1].split()[0]
                detail = hits[0][:400]
                case["native"] = [h[h.index("VERIF-REPLAY"):][:300] for h in hits[:4]]
                break
        results.append({"harness": c["harness"], "name": c["harness"], "case": case, "outcome": outcome,
                        "klass": klass, "detail": detail})
        shared = {"outcome": outcome, "klass": klass, "detail": detail, "native": case.get("native")}
    return {"results": results, "runs": runs}


def replay_file_generic(path, injections, test_filter):
    dst, _ = fresh_copy("replay")
    try:
        src = native_copy(dst, injections)
        rc, lines, out = native_test(src, test_filter, {"VERIF_REPLAY_FILE": os.path.abspath(path)})
        for l in lines:
            print(l)
        return 1 if any("reproduced class=" in l and "not-reproduced" not in l for l in lines) else 0
    finally:
        cleanup(dst)
