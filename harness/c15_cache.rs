//! C15 harnesses — child module of `crate::lru_time_cache` in the scratch copy.
//! `hashlink::LinkedHashMap` is replaced by the association-list model of /verif/shims/linked.rs and
//! `Instant::now` by a harness-controlled clock.  One *inductive step* per operation: the pre-state
//! is an arbitrary cache satisfying the representation invariant
//!     distinct keys, entries ordered by last-use time (oldest first), every last-use time <= now,
//!     number of entries <= capacity,
//! the operation runs once with arbitrary arguments, and the post-state is checked against the
//! property and the invariant.  Histories of any length follow by induction.
#![allow(dead_code, unused_imports, static_mut_refs)]
use super::*;
use std::time::{Duration, Instant};

static mut NOW_S: u64 = 0;
static mut NOW_N: u32 = 0;

fn instant(s: u64, n: u32) -> Instant {
    // all-zero is a valid Instant (seconds 0, nanoseconds 0)
    unsafe { std::mem::zeroed::<Instant>() + Duration::new(s, n) }
}
/// S-clock
fn stub_now() -> Instant {
    unsafe { instant(NOW_S, NOW_N) }
}

const SEC_BOUND: u64 = 1 << 40;

fn any_time() -> (u64, u32) {
    let s: u64 = kani::any();
    let n: u32 = kani::any();
    kani::assume(s < SEC_BOUND && n < 1_000_000_000);
    (s, n)
}
fn le(a: (u64, u32), b: (u64, u32)) -> bool {
    a.0 < b.0 || (a.0 == b.0 && a.1 <= b.1)
}

struct Pre {
    cache: LruTimeCache<u8, u8>,
    keys: [u8; 3],
    vals: [u8; 3],
    times: [(u64, u32); 3],
    n: usize,
    cap: usize,
    ttl: Duration,
    now: (u64, u32),
}

/// An arbitrary cache with exactly `n` entries satisfying the representation invariant.
fn arbitrary_cache(n: usize) -> Pre {
    let ttl_s: u64 = kani::any();
    let ttl_n: u32 = kani::any();
    kani::assume(ttl_s < SEC_BOUND && ttl_n < 1_000_000_000);
    let ttl = Duration::new(ttl_s, ttl_n);
    let cap: usize = kani::any();
    kani::assume(cap >= 1 && cap >= n && cap <= 3);
    let mut cache: LruTimeCache<u8, u8> = LruTimeCache::new(ttl, Some(cap));
    let keys: [u8; 3] = kani::any();
    let vals: [u8; 3] = kani::any();
    let times = [any_time(), any_time(), any_time()];
    let now = any_time();
    kani::assume(keys[0] != keys[1] && keys[0] != keys[2] && keys[1] != keys[2]);
    kani::assume(le(times[0], times[1]) && le(times[1], times[2]));
    let mut i = 0;
    while i < n {
        kani::assume(le(times[i], now));
        cache.map.items.push((keys[i], (vals[i], instant(times[i].0, times[i].1))));
        i += 1;
    }
    unsafe {
        NOW_S = now.0;
        NOW_N = now.1;
    }
    Pre { cache, keys, vals, times, n, cap, ttl, now }
}

impl Pre {
    /// idle for longer than the ttl at the current time?
    fn expired(&self, i: usize) -> bool {
        let t = instant(self.times[i].0, self.times[i].1);
        let now = instant(self.now.0, self.now.1);
        now.duration_since(t) > self.ttl
    }
    fn index_of(&self, k: u8) -> Option<usize> {
        let mut i = 0;
        while i < self.n {
            if self.keys[i] == k {
                return Some(i);
            }
            i += 1;
        }
        None
    }
    /// invariant on the post-state + "entries other than `except` keep key, value, time and relative order"
    fn check_invariant_and_others(&self, except: Option<usize>) {
        let items = &self.cache.map.items;
        assert!(items.len() <= self.cap, "more entries than the capacity");
        let now = instant(self.now.0, self.now.1);
        // distinct keys, ordered times, nothing from the future
        let mut a = 0;
        while a < items.len() {
            assert!(items[a].1 .1 <= now);
            let mut b = a + 1;
            while b < items.len() {
                assert!(items[a].0 != items[b].0, "duplicate key");
                assert!(items[a].1 .1 <= items[b].1 .1, "recency order broken");
                b += 1;
            }
            a += 1;
        }
        // survivors among the old entries keep their data and relative order
        let mut last_pos: Option<usize> = None;
        let mut i = 0;
        while i < self.n {
            if Some(i) != except {
                let mut p = 0;
                let mut found: Option<usize> = None;
                while p < items.len() {
                    if items[p].0 == self.keys[i] {
                        found = Some(p);
                    }
                    p += 1;
                }
                if let Some(p) = found {
                    assert!(items[p].1 .0 == self.vals[i], "value of an untouched entry changed");
                    assert!(items[p].1 .1 == instant(self.times[i].0, self.times[i].1), "time of an untouched entry changed");
                    if let Some(lp) = last_pos {
                        assert!(lp < p, "relative order of untouched entries changed");
                    }
                    last_pos = Some(p);
                }
            }
            i += 1;
        }
    }
    fn present(&self, k: u8) -> bool {
        self.cache.map.items.iter().any(|e| e.0 == k)
    }
}

// -------------------------------------------------------------------------------------------
// get / get_mut: never hand out an entry that has been idle for longer than the ttl
// -------------------------------------------------------------------------------------------
fn step_get(n: usize, use_mut: bool) {
    let mut pre = arbitrary_cache(n);
    let k: u8 = kani::any();
    let idx = pre.index_of(k);
    let got: Option<u8> = if use_mut {
        pre.cache.get_mut(&k).map(|v| *v)
    } else {
        pre.cache.get(&k).copied()
    };
    match idx {
        None => {
            assert!(got.is_none(), "value for a key that is not cached");
            pre.check_invariant_and_others(None);
            assert!(pre.cache.map.items.len() == n);
        }
        Some(i) => {
            if pre.expired(i) {
                kani::cover!(true, "lookup of an expired entry");
                assert!(got.is_none(), "expired entry handed out");
                // the expired entry may stay (until the next purge) or be dropped; it must not be refreshed
                if pre.present(k) {
                    let items = &pre.cache.map.items;
                    let mut p = 0;
                    while p < items.len() {
                        if items[p].0 == k {
                            assert!(items[p].1 .1 == instant(pre.times[i].0, pre.times[i].1), "expired entry refreshed");
                        }
                        p += 1;
                    }
                }
                pre.check_invariant_and_others(None);
            } else {
                kani::cover!(true, "lookup of a live entry");
                assert!(got == Some(pre.vals[i]), "live entry not returned");
                // refreshed and most recently used
                let items = &pre.cache.map.items;
                assert!(items.len() == n);
                let last = &items[items.len() - 1];
                assert!(last.0 == k && last.1 .0 == pre.vals[i], "used entry is not the most recent one");
                assert!(last.1 .1 == instant(pre.now.0, pre.now.1), "use does not refresh the entry");
                pre.check_invariant_and_others(Some(i));
            }
        }
    }
    std::mem::forget(pre);
}

// -------------------------------------------------------------------------------------------
// peek: read-only, same age rule
// -------------------------------------------------------------------------------------------
fn step_peek(n: usize) {
    let pre = arbitrary_cache(n);
    let k: u8 = kani::any();
    let got = pre.cache.peek(&k).copied();
    match pre.index_of(k) {
        None => assert!(got.is_none()),
        Some(i) => {
            if pre.expired(i) {
                kani::cover!(true, "peek at an expired entry");
                assert!(got.is_none(), "expired entry handed out by peek");
            } else {
                assert!(got == Some(pre.vals[i]), "live entry not returned by peek");
            }
        }
    }
    assert!(pre.cache.map.items.len() == n);
    pre.check_invariant_and_others(None);
    std::mem::forget(pre);
}

// -------------------------------------------------------------------------------------------
// insert: bounded by the capacity, evicts the least recently used entry
// -------------------------------------------------------------------------------------------
fn step_insert(n: usize) {
    let mut pre = arbitrary_cache(n);
    let k: u8 = kani::any();
    let v: u8 = kani::any();
    let idx = pre.index_of(k);
    pre.cache.insert(k, v);
    let len = pre.cache.len();
    assert!(len <= pre.cap, "cache exceeds its capacity");
    {
        let items = &pre.cache.map.items;
        assert!(!items.is_empty());
        let last = &items[items.len() - 1];
        assert!(last.0 == k && last.1 .0 == v, "inserted entry is not the most recent one");
        assert!(last.1 .1 == instant(pre.now.0, pre.now.1), "inserted entry is not stamped with the current time");
    }
    match idx {
        Some(i) => {
            kani::cover!(true, "insert replaces an existing key");
            assert!(len == n);
            pre.check_invariant_and_others(Some(i));
            let mut j = 0;
            while j < n {
                if j != i {
                    assert!(pre.present(pre.keys[j]), "replacing a key evicted another entry");
                }
                j += 1;
            }
        }
        None => {
            if n == pre.cap {
                kani::cover!(true, "insert into a full cache");
                assert!(len == n);
                // the least recently used entry (index 0 of the pre-state) is the one dropped
                assert!(!pre.present(pre.keys[0]), "least recently used entry was not the one evicted");
                let mut j = 1;
                while j < n {
                    assert!(pre.present(pre.keys[j]), "an entry other than the least recently used one was evicted");
                    j += 1;
                }
            } else {
                kani::cover!(true, "insert with room left");
                assert!(len == n + 1);
                let mut j = 0;
                while j < n {
                    assert!(pre.present(pre.keys[j]), "entry lost although the cache had room");
                    j += 1;
                }
            }
            pre.check_invariant_and_others(None);
        }
    }
    std::mem::forget(pre);
}

// -------------------------------------------------------------------------------------------
// remove / remove_expired_values
// -------------------------------------------------------------------------------------------
fn step_remove(n: usize) {
    let mut pre = arbitrary_cache(n);
    let k: u8 = kani::any();
    let idx = pre.index_of(k);
    let got = pre.cache.remove(&k);
    match idx {
        None => {
            assert!(got.is_none());
            assert!(pre.cache.map.items.len() == n);
        }
        Some(i) => {
            assert!(got == Some(pre.vals[i]));
            assert!(!pre.present(k));
            assert!(pre.cache.map.items.len() == n - 1);
        }
    }
    pre.check_invariant_and_others(idx);
    std::mem::forget(pre);
}

fn step_purge(n: usize) {
    let mut pre = arbitrary_cache(n);
    let out = pre.cache.remove_expired_values();
    let mut expired_count = 0;
    let mut i = 0;
    while i < n {
        let e = pre.expired(i);
        if e {
            expired_count += 1;
        }
        assert!(pre.present(pre.keys[i]) == !e, "purge must drop exactly the entries idle for longer than the ttl");
        let mut reported = false;
        let mut j = 0;
        while j < out.len() {
            if out[j] == pre.keys[i] {
                reported = true;
            }
            j += 1;
        }
        assert!(reported == e, "purge must report exactly the keys it dropped");
        i += 1;
    }
    kani::cover!(expired_count > 0 && expired_count < n, "some but not all entries expired");
    assert!(out.len() == expired_count);
    pre.check_invariant_and_others(None);
    std::mem::forget(out);
    std::mem::forget(pre);
}

macro_rules! harnesses {
    ($($name:ident => $body:expr;)*) => {$(
        #[kani::proof]
        #[kani::unwind(5)]
        #[kani::stub(std::time::Instant::now, stub_now)]
        fn $name() { $body }
    )*};
}
harnesses! {
    c15_get_n1 => step_get(1, false);
    c15_get_n2 => step_get(2, false);
    c15_get_n3 => step_get(3, false);
    c15_get_mut_n1 => step_get(1, true);
    c15_get_mut_n2 => step_get(2, true);
    c15_get_mut_n3 => step_get(3, true);
    c15_peek_n2 => step_peek(2);
    c15_peek_n3 => step_peek(3);
    c15_insert_n0 => step_insert(0);
    c15_insert_n1 => step_insert(1);
    c15_insert_n2 => step_insert(2);
    c15_insert_n3 => step_insert(3);
    c15_remove_n2 => step_remove(2);
    c15_remove_n3 => step_remove(3);
    c15_purge_n1 => step_purge(1);
    c15_purge_n2 => step_purge(2);
    c15_purge_n3 => step_purge(3);
    c15_twin_must_fail => { step_get(2, false); assert!(false, "twin"); };
}
