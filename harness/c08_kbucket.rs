//! C08 harnesses — compiled as a child module of `crate::kbucket` in the scratch copy, so the
//! private iterator types of /repo's current `src/kbucket.rs` are executed symbolically as they are.
//!
//! Reference visiting order for a distance d (bit string of local XOR target):
//!   msb(d) first (bucket 0 when d == 0), then the set bits below it in descending order, then the
//!   unset bits in ascending order; every bucket index exactly once.
#![allow(dead_code, unused_imports)]
use super::key::U256;
use super::*;

fn any_u256() -> U256 {
    let w0: u64 = kani::any();
    let w1: u64 = kani::any();
    let w2: u64 = kani::any();
    let w3: u64 = kani::any();
    U256([w0, w1, w2, w3])
}

/// "for all k" by a solver-chosen index.
fn any_index() -> usize {
    let k: usize = kani::any();
    kani::assume(k < NUM_BUCKETS);
    k
}

// ---------------------------------------------------------------------------------------------
// Obligation 1: first yield = msb(d), bucket 0 for d == 0   (all 2^256 distances)
// ---------------------------------------------------------------------------------------------
#[kani::proof]
#[kani::unwind(6)]
fn c08_first_yield() {
    let d = Distance(any_u256());
    let k = any_index();
    let mut it = ClosestBucketsIter::new(d);
    let r = it.next().map(|b| b.get());
    kani::cover!(d.0.is_zero(), "zero distance reached");
    kani::cover!(!d.0.is_zero(), "non-zero distance reached");
    if d.0.is_zero() {
        assert!(r == Some(0));
    } else {
        let j = match r {
            Some(j) => j,
            None => {
                assert!(false, "first yield must exist");
                return;
            }
        };
        assert!(j < NUM_BUCKETS);
        assert!(d.0.bit(j));
        if k > j {
            assert!(!d.0.bit(k));
        }
    }
}

/// BucketIndex::new(d) = position of the most significant set bit; None for zero.
#[kani::proof]
#[kani::unwind(6)]
fn c08_bucket_index_is_msb() {
    let d = Distance(any_u256());
    let k = any_index();
    match BucketIndex::new(&d) {
        None => assert!(d.0.is_zero()),
        Some(b) => {
            let j = b.get();
            assert!(j < NUM_BUCKETS && d.0.bit(j));
            if k > j {
                assert!(!d.0.bit(k));
            }
            kani::cover!(j == 0, "bucket 0");
            kani::cover!(j == 255, "bucket 255");
        }
    }
}

// ---------------------------------------------------------------------------------------------
// Obligation 2: one step of the iterator from an arbitrary state of the reference order
// ---------------------------------------------------------------------------------------------
fn state_tag(s: &ClosestBucketsIterState) -> (u8, usize) {
    match s {
        ClosestBucketsIterState::Start(i) => (0, i.get()),
        ClosestBucketsIterState::ZoomIn(i) => (1, i.get()),
        ClosestBucketsIterState::ZoomOut(i) => (2, i.get()),
        ClosestBucketsIterState::Done => (3, 0),
    }
}

/// One `next()` from `ZoomIn(i)`: i is the bucket yielded last, (a) the start bucket or (b) a set
/// bit below the msb. Everything >= i that is set, and nothing else, has been yielded.
fn step_from_zoom_in(i: usize) {
    let d = Distance(any_u256());
    let k = any_index();
    kani::assume(i < NUM_BUCKETS);
    // reachable ZoomIn states: the bit is set, or d == 0 and i == 0 (start bucket of zero distance)
    kani::assume(d.0.bit(i) || (d.0.is_zero() && i == 0));
    let mut it = ClosestBucketsIter {
        distance: d,
        state: ClosestBucketsIterState::ZoomIn(BucketIndex(i)),
    };
    let r = it.next().map(|b| b.get());
    let (tag, si) = state_tag(&it.state);
    match r {
        Some(j) => {
            assert!(j < NUM_BUCKETS);
            assert!(si == j, "state records the yielded bucket");
            if tag == 1 {
                // still zooming in: j is the next set bit below i
                kani::cover!(true, "zoom-in continues");
                assert!(j < i);
                assert!(d.0.bit(j));
                if k > j && k < i {
                    assert!(!d.0.bit(k));
                }
            } else if tag == 2 {
                // turned around: no set bit below i
                if k < i {
                    assert!(!d.0.bit(k));
                }
                if i > 0 {
                    kani::cover!(true, "turn-around yields bucket 0");
                    assert!(j == 0, "first zoom-out bucket is 0 when it was not visited");
                } else {
                    // bucket 0 was the last one yielded: it must not be yielded again
                    kani::cover!(true, "turn-around at bucket 0");
                    assert!(j > 0, "bucket 0 yielded twice");
                    assert!(!d.0.bit(j));
                    if k > 0 && k < j {
                        assert!(d.0.bit(k));
                    }
                }
            } else {
                assert!(false, "unexpected state after zoom-in step");
            }
        }
        None => {
            // only possible if nothing is left: i == 0 and every bit above 0 is set
            assert!(tag == 3);
            assert!(i == 0);
            if k > 0 {
                assert!(d.0.bit(k));
            }
        }
    }
}

/// One `next()` from `ZoomOut(i)`: i is 0 or an unset bit; all set bits, bucket 0 and all unset
/// bits <= i have been yielded.
fn step_from_zoom_out(i: usize) {
    let d = Distance(any_u256());
    let k = any_index();
    kani::assume(i < NUM_BUCKETS);
    kani::assume(i == 0 || !d.0.bit(i));
    let mut it = ClosestBucketsIter {
        distance: d,
        state: ClosestBucketsIterState::ZoomOut(BucketIndex(i)),
    };
    let r = it.next().map(|b| b.get());
    let (tag, si) = state_tag(&it.state);
    match r {
        Some(j) => {
            kani::cover!(true, "zoom-out continues");
            assert!(tag == 2 && si == j);
            assert!(j > i && j < NUM_BUCKETS);
            assert!(!d.0.bit(j));
            if k > i && k < j {
                assert!(d.0.bit(k));
            }
        }
        None => {
            kani::cover!(true, "zoom-out ends");
            assert!(tag == 3);
            if k > i {
                assert!(d.0.bit(k));
            }
        }
    }
}

/// `Done` is absorbing.
#[kani::proof]
#[kani::unwind(6)]
fn c08_step_done() {
    let d = Distance(any_u256());
    let mut it = ClosestBucketsIter {
        distance: d,
        state: ClosestBucketsIterState::Done,
    };
    assert!(it.next().is_none());
    assert!(state_tag(&it.state).0 == 3);
}

/// `Start(i)` yields i and moves to ZoomIn(i).
#[kani::proof]
#[kani::unwind(6)]
fn c08_step_start() {
    let d = Distance(any_u256());
    let mut it = ClosestBucketsIter::new(d);
    let (tag0, i0) = state_tag(&it.state);
    assert!(tag0 == 0);
    let r = it.next().map(|b| b.get());
    assert!(r == Some(i0));
    let (tag, si) = state_tag(&it.state);
    assert!(tag == 1 && si == i0);
}

macro_rules! concrete_steps {
    ($($nin:ident, $nout:ident, $i:expr;)*) => {$(
        #[kani::proof]
        #[kani::unwind(258)]
        fn $nin() { step_from_zoom_in($i) }
        #[kani::proof]
        #[kani::unwind(258)]
        fn $nout() { step_from_zoom_out($i) }
    )*};
}
concrete_steps! {
    c08_step_in_i0, c08_step_out_i0, 0;
    c08_step_in_i1, c08_step_out_i1, 1;
    c08_step_in_i2, c08_step_out_i2, 2;
    c08_step_in_i63, c08_step_out_i63, 63;
    c08_step_in_i64, c08_step_out_i64, 64;
    c08_step_in_i128, c08_step_out_i128, 128;
    c08_step_in_i254, c08_step_out_i254, 254;
    c08_step_in_i255, c08_step_out_i255, 255;
}

/// Thorough tier: the bucket index itself symbolic (all 256 values in one query).
#[kani::proof]
#[kani::unwind(258)]
fn c08_step_in_symbolic() {
    step_from_zoom_in(kani::any())
}
#[kani::proof]
#[kani::unwind(258)]
fn c08_step_out_symbolic() {
    step_from_zoom_out(kani::any())
}

// ---------------------------------------------------------------------------------------------
// Obligation 4: distance comparator and log2 distance against a byte-level reference
// ---------------------------------------------------------------------------------------------
fn any_id() -> [u8; 32] {
    kani::any()
}
fn key_of(b: [u8; 32]) -> Key<enr::NodeId> {
    Key::from(enr::NodeId::new(&b))
}

#[kani::proof]
#[kani::unwind(34)]
fn c08_distance_order_is_bytewise_xor_order() {
    let (t, a, b) = (any_id(), any_id(), any_id());
    let (kt, ka, kb) = (key_of(t), key_of(a), key_of(b));
    let got = kt.distance(&ka).cmp(&kt.distance(&kb));
    // reference: lexicographic (big-endian) order of a^t and b^t
    let mut want = std::cmp::Ordering::Equal;
    let mut i = 0;
    while i < 32 {
        let (x, y) = (a[i] ^ t[i], b[i] ^ t[i]);
        if want == std::cmp::Ordering::Equal && x != y {
            want = if x < y {
                std::cmp::Ordering::Less
            } else {
                std::cmp::Ordering::Greater
            };
        }
        i += 1;
    }
    kani::cover!(want == std::cmp::Ordering::Less);
    kani::cover!(want == std::cmp::Ordering::Equal);
    assert!(got == want);
}

#[kani::proof]
#[kani::unwind(34)]
fn c08_log2_distance_reference() {
    let (a, b) = (any_id(), any_id());
    let (ka, kb) = (key_of(a), key_of(b));
    let got = ka.log2_distance(&kb);
    let mut want: Option<u64> = None;
    let mut i = 0;
    while i < 32 {
        let x = a[i] ^ b[i];
        if want.is_none() && x != 0 {
            want = Some(256 - (8 * i as u64 + x.leading_zeros() as u64));
        }
        i += 1;
    }
    kani::cover!(want == Some(1));
    kani::cover!(want == Some(256));
    kani::cover!(want.is_none());
    assert!(got == want);
    // bucket index is log2 distance - 1 and the distance is symmetric
    let d = ka.distance(&kb);
    assert!(d == kb.distance(&ka));
    assert!(BucketIndex::new(&d).map(|x| x.get() as u64 + 1) == want);
}

/// Vacuity twin: must be reported FAILED by CBMC, otherwise the harness family proves nothing.
#[kani::proof]
#[kani::unwind(258)]
fn c08_twin_must_fail() {
    step_from_zoom_out(3);
    assert!(false, "twin");
}
