//! C16 harnesses — child module of `crate::kbucket::bucket` (sees the private fields of both
//! `KBucket` and `KBucketsTable`).  Scaled instance: K = 4, table limit 10 -> 2, bucket limit 2.
//! The table and bucket code is generic in the value type and in the `Filter` trait object it
//! consults, so these harnesses instantiate it with a small value type (`V`: subnet, host, sequence
//! number) and with filters that apply the same counting rule as `ip_filter` to it (at most LIMIT
//! other values, not equal to the candidate, in the candidate's subnet; subnet 0 = no IPv4 address,
//! never limited).  What is decided here is which values the table shows to which filter at which
//! point (stored nodes *and* pending nodes; on insert, record update and promotion); the counting
//! rule of the real `ip_filter` over real record accessors is decided by the kernel harness in
//! c16_filter.rs.  (ENR-valued buckets exhausted 48 GB.)
//!
//! Inductive step over the table invariant
//!     for every /24: (stored in all buckets) + (waiting in pending slots) <= table limit
//!     for every bucket and /24: stored in that bucket <= bucket limit
//! for `insert_or_update`, `update_node`, `update_node_status`, `remove` (each applies pending nodes).
#![allow(dead_code, unused_imports, static_mut_refs)]
use super::*;
use crate::kbucket::filter::Filter;
use crate::kbucket::{InsertResult as TableInsertResult, KBucketsTable};
use enr::k256::sha2::digest::generic_array::GenericArray;
use std::time::{Duration, Instant};

const K: usize = MAX_NODES_PER_BUCKET; // 4 in the scratch copy
const TABLE_LIMIT: usize = 2; // stands for MAX_NODES_PER_SUBNET_TABLE = 10
const BUCKET_LIMIT: usize = 2; // = MAX_NODES_PER_SUBNET_BUCKET
type T = KBucketsTable<u8, V>;

#[derive(Clone, Copy, PartialEq, Eq, Debug)]
struct V {
    /// like a record, a value names the node it belongs to: two different nodes never carry equal values
    id: u8,
    subnet: u8,
    host: u8,
    seq: u8,
}
/// same rule as `ip_filter`: refuse iff the candidate has an address and `limit` other values share its /24
#[derive(Clone)]
struct SubnetLimit(usize);
impl Filter<V> for SubnetLimit {
    fn filter(&self, v: &V, others: &mut dyn Iterator<Item = &V>) -> bool {
        if v.subnet != 0 {
            let mut count = 0;
            for o in others {
                if o == v {
                    continue;
                }
                if o.subnet == v.subnet {
                    count += 1;
                }
                if count >= self.0 {
                    return false;
                }
            }
        }
        true
    }
}

static mut NOW_S: u64 = 1000;
fn instant(s: u64) -> Instant {
    unsafe { std::mem::zeroed::<Instant>() + Duration::new(s, 0) }
}
fn stub_now() -> Instant {
    unsafe { instant(NOW_S) }
}

/// keys: the local key is zero and keys differ from it in the last hash byte only: 8..15 lie in
/// bucket 3 ("bucket A", class 0x80), 4..7 in bucket 2 ("bucket B", class 0x40).  The table is built
/// with the four lowest buckets only; the operations under test index `buckets` by log2 distance,
/// which is < 4 here.
const BUCKET_A: usize = 3;
const BUCKET_B: usize = 2;
fn node_id(class: u8, low: u8) -> u8 {
    if class == 0x80 {
        8 | (low & 7)
    } else {
        4 | (low & 3)
    }
}
fn key(b: u8) -> Key<u8> {
    let mut h = [0u8; 32];
    h[31] = b;
    Key::new_raw(b, *GenericArray::from_slice(&h))
}
fn record(id: u8, subnet: u8, host: u8, seq: u64) -> V {
    V { id, subnet, host, seq: seq as u8 }
}
fn st(conn: bool) -> NodeStatus {
    NodeStatus {
        state: if conn { ConnectionState::Connected } else { ConnectionState::Disconnected },
        direction: ConnectionDirection::Outgoing,
    }
}

#[derive(Clone, Copy)]
struct Slot {
    low: u8,
    subnet: u8,
    host: u8,
}
/// Keys are *concrete* (so that the bucket index the table computes from the distance is concrete:
/// a symbolic index into the heap vector of buckets is what CBMC cannot digest); which record a node
/// carries is symbolic.  Stored nodes of bucket A use keys 8..11, its pending node 12, a newcomer 13;
/// bucket B uses 4..5, a newcomer 6.
fn any_slot(low: u8) -> Slot {
    let s = Slot { low, subnet: kani::any(), host: kani::any() };
    kani::assume(s.subnet <= 2);
    s
}

struct Pre {
    a: [Slot; K], // bucket A
    na: usize,
    da: usize, // disconnected prefix of bucket A
    b: [Slot; 2], // bucket B
    nb: usize,
    pending: Option<Slot>, // pending slot of bucket A
    pending_due: bool,
}

fn count_subnet(pre: &Pre, s: u8, with_pending: bool) -> usize {
    let mut c = 0;
    let mut i = 0;
    while i < K {
        if i < pre.na && pre.a[i].subnet == s {
            c += 1;
        }
        i += 1;
    }
    let mut j = 0;
    while j < 2 {
        if j < pre.nb && pre.b[j].subnet == s {
            c += 1;
        }
        j += 1;
    }
    if with_pending {
        if let Some(p) = pre.pending {
            if p.subnet == s {
                c += 1;
            }
        }
    }
    c
}
fn count_bucket_a(pre: &Pre, s: u8) -> usize {
    let mut c = 0;
    let mut i = 0;
    while i < K {
        if i < pre.na && pre.a[i].subnet == s {
            c += 1;
        }
        i += 1;
    }
    c
}

/// A table whose buckets A and B hold an arbitrary content satisfying the invariant.
fn arbitrary_table(na: usize, nb: usize) -> (T, Pre) {
    let a = [any_slot(0), any_slot(1), any_slot(2), any_slot(3)];
    let b = [any_slot(0), any_slot(1)];
    let da: usize = kani::any();
    kani::assume(da <= na);
    let has_pending: bool = kani::any();
    let p = any_slot(4);
    let pre = Pre { a, na, da, b, nb, pending: if has_pending { Some(p) } else { None }, pending_due: kani::any() };
    // the invariant
    let mut s = 1;
    while s <= 2 {
        kani::assume(count_subnet(&pre, s, true) <= TABLE_LIMIT);
        kani::assume(count_bucket_a(&pre, s) <= BUCKET_LIMIT);
        s += 1;
    }
    let local = key(0);
    let mut t: T = KBucketsTable {
        local_key: local,
        buckets: vec![
            KBucket::new(Duration::new(60, 0), K, Some(Box::new(SubnetLimit(BUCKET_LIMIT)))),
            KBucket::new(Duration::new(60, 0), K, Some(Box::new(SubnetLimit(BUCKET_LIMIT)))),
            KBucket::new(Duration::new(60, 0), K, Some(Box::new(SubnetLimit(BUCKET_LIMIT)))),
            KBucket::new(Duration::new(60, 0), K, Some(Box::new(SubnetLimit(BUCKET_LIMIT)))),
        ],
        applied_pending: std::collections::VecDeque::new(),
        table_filter: Some(Box::new(SubnetLimit(TABLE_LIMIT))),
    };
    let mut i = 0;
    while i < K {
        if i < na {
            let id = node_id(0x80, a[i].low);
            t.buckets[BUCKET_A].nodes.push(Node { key: key(id), value: record(id, a[i].subnet, a[i].host, 1), status: st(i >= da) });
        }
        i += 1;
    }
    t.buckets[BUCKET_A].first_connected_pos = if da < na { Some(da) } else { None };
    let mut j = 0;
    while j < 2 {
        if j < nb {
            let id = node_id(0x40, b[j].low);
            t.buckets[BUCKET_B].nodes.push(Node { key: key(id), value: record(id, b[j].subnet, b[j].host, 1), status: st(true) });
        }
        j += 1;
    }
    t.buckets[BUCKET_B].first_connected_pos = if nb > 0 { Some(0) } else { None };
    if has_pending {
        let id = node_id(0x80, p.low);
        t.buckets[BUCKET_A].pending = Some(PendingNode {
            node: Node { key: key(id), value: record(id, p.subnet, p.host, 1), status: st(true) },
            replace: instant(if pre.pending_due { 10 } else { 5000 }),
        });
    }
    (t, pre)
}

fn subnet_of(e: &V) -> u8 {
    e.subnet
}

/// the invariant on the post-state, read off the real table
fn check_table_invariant(t: &T) {
    let mut s = 1u8;
    while s <= 2 {
        let mut total = 0;
        let mut bi = BUCKET_B;
        while bi <= BUCKET_A {
            let bk = &t.buckets[bi];
            let mut in_bucket = 0;
            let mut i = 0;
            while i < K {
                if i < bk.nodes.len() && subnet_of(&bk.nodes[i].value) == s {
                    in_bucket += 1;
                }
                i += 1;
            }
            assert!(in_bucket <= BUCKET_LIMIT, "a bucket holds more nodes of one /24 than the bucket limit");
            total += in_bucket;
            if let Some(p) = bk.pending.as_ref() {
                if subnet_of(&p.node.value) == s {
                    total += 1;
                }
            }
            bi += 1;
        }
        assert!(total <= TABLE_LIMIT, "the table holds (or has queued for insertion) more nodes of one /24 than the table limit");
        s += 1;
    }
}

/// `target`: None = a key not in the table (13 in bucket A / 6 in bucket B); Some(i) = the key of
/// stored node i; Some(K) = the key of the pending node (bucket A only).
fn step_insert_or_update(na: usize, nb: usize, into_a: bool, target: Option<usize>) {
    let (mut t, pre) = arbitrary_table(na, nb);
    let low = match target {
        None => if into_a { 5 } else { 2 },
        Some(i) => if into_a { if i == K { 4 } else { i as u8 } } else { i as u8 },
    };
    let s = any_slot(low);
    let id = node_id(if into_a { 0x80 } else { 0x40 }, s.low);
    let seq: u64 = kani::any();
    let conn: bool = kani::any();
    let r = t.insert_or_update(&key(id), record(id, s.subnet, s.host, seq), st(conn));
    kani::cover!(matches!(r, TableInsertResult::Inserted), "inserted");
    kani::cover!(matches!(r, TableInsertResult::Failed(FailureReason::TableFilter)), "refused by the table filter");
    kani::cover!(matches!(r, TableInsertResult::Failed(FailureReason::BucketFilter)), "refused by the bucket filter");
    check_table_invariant(&t);
    // nodes without an IPv4 address are never refused by a filter
    if s.subnet == 0 {
        assert!(!matches!(r, TableInsertResult::Failed(FailureReason::TableFilter) | TableInsertResult::Failed(FailureReason::BucketFilter)),
            "a node without IPv4 address was refused by a filter");
    }
    std::mem::forget(r);
    std::mem::forget(t);
}

fn step_update_node(na: usize, nb: usize, in_a: bool, which: usize) {
    let (mut t, pre) = arbitrary_table(na, nb);
    // an existing node (or, which == K, the pending one) gets a new record, possibly in another subnet
    let low = if which == K { 4 } else { which as u8 };
    let s = any_slot(low);
    let id = node_id(if in_a { 0x80 } else { 0x40 }, low);
    let seq: u64 = kani::any();
    let r = t.update_node(&key(id), record(id, s.subnet, s.host, seq), None);
    kani::cover!(matches!(r, UpdateResult::Updated), "record updated");
    kani::cover!(r.failed(), "update refused: node dropped");
    check_table_invariant(&t);
    std::mem::forget(r);
    std::mem::forget(t);
}

fn step_status_and_remove(na: usize, nb: usize, which: usize) {
    let (mut t, pre) = arbitrary_table(na, nb);
    let id = node_id(0x80, which as u8);
    let op: bool = kani::any();
    if op {
        let conn: bool = kani::any();
        let r = t.update_node_status(&key(id), st(conn).state, None);
        std::mem::forget(r);
    } else {
        let _ = t.remove(&key(id));
    }
    check_table_invariant(&t);
    std::mem::forget(t);
}

macro_rules! harnesses {
    ($($name:ident => $body:expr;)*) => {$(
        #[kani::proof]
        #[kani::unwind(7)]
        #[kani::stub(std::time::Instant::now, stub_now)]
        fn $name() { $body }
    )*};
}
harnesses! {
    // small instances (quick tier): one stored node per bucket plus the pending slot
    c16_small_insert_new_other_bucket => step_insert_or_update(1, 1, false, None);
    c16_small_insert_new_same_bucket => step_insert_or_update(1, 1, true, None);
    c16_small_insert_existing => step_insert_or_update(1, 1, false, Some(0));
    c16_small_update_node_other_bucket => step_update_node(1, 1, false, 0);
    c16_small_update_node_same_bucket => step_update_node(1, 1, true, 0);
    // larger instances (thorough tier)
    c16_insert_new_into_other_bucket => step_insert_or_update(3, 1, false, None);
    c16_insert_new_into_full_bucket => step_insert_or_update(4, 1, true, None);
    c16_insert_existing_first => step_insert_or_update(3, 2, true, Some(0));
    c16_insert_pending_key => step_insert_or_update(3, 1, true, Some(K));
    c16_update_node_other_bucket => step_update_node(3, 2, false, 0);
    c16_update_node_pending => step_update_node(4, 1, true, K);
    c16_status_and_remove_first => step_status_and_remove(4, 1, 0);
    c16_twin_must_fail => { step_insert_or_update(1, 1, false, None); assert!(false, "twin"); };
}
