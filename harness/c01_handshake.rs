//! C01 harnesses — child module of `crate::handler` in the scratch copy.
//!
//! Encoded: `Session::establish_from_challenge` (record selection, signature check, record handed
//! back to the handler) and `Handler::verify_enr`.
//!
//! Model of the parties (S-enr, S-sig): the claimed source id is X.  Records that can exist are
//! (a) genuine records of X: node id X, ghost key KEY_X, any sequence number, any address fields;
//! (b) records of some other identity A != X: node id A, ghost key KEY_A.  (The `enr` crate only
//! admits correctly signed records whose id is the hash of their key: trusted.)
//! The signature oracle answers `verify_authentication_nonce` per key: SIG_X says whether the
//! presented id-signature verifies under X's key, SIG_A whether it verifies under A's key.  A party
//! without X's secret key cannot make SIG_X true for a fresh challenge (ECDSA unforgeability,
//! freshness of the 16 random id-nonce bytes: trusted).
#![allow(dead_code, unused_imports, static_mut_refs)]
use super::session::Session;
use super::*;
use crate::packet::ChallengeData;
use crate::verif_shims::enr_mirror::*;
use enr::{CombinedPublicKey, NodeId};
use std::convert::TryFrom;
use std::net::{Ipv4Addr, Ipv6Addr, SocketAddr, SocketAddrV4, SocketAddrV6};

const KEY_X: u8 = KEY_SECP;
const KEY_A: u8 = KEY_ED;

static mut SIG_X: bool = false;
static mut SIG_A: bool = false;
static mut VERIFY_CALLS: u8 = 0;
static mut VERIFIED_UNDER: u8 = 0;
static mut DERIVE_OK: bool = true;
static mut DERIVE_CALLS: u8 = 0;
static mut DERIVE_REMOTE: [u8; 32] = [0; 32];

/// S-sig: signature oracle.
fn stub_verify(
    remote_pubkey: &CombinedPublicKey,
    _remote_ephem_pubkey: &[u8],
    _challenge_data: &ChallengeData,
    _dst_id: &NodeId,
    _sig: &[u8],
) -> bool {
    unsafe {
        VERIFY_CALLS += 1;
        let tag = ghost_key_tag(remote_pubkey);
        VERIFIED_UNDER = tag;
        if tag == KEY_X {
            SIG_X
        } else {
            SIG_A
        }
    }
}

/// S-sig: key agreement returns fresh arbitrary keys (or fails, when the harness says so).
fn stub_derive(
    _local_key: &CombinedKey,
    _local_id: &NodeId,
    remote_id: &NodeId,
    _challenge_data: &ChallengeData,
    _ephem_pubkey: &[u8],
) -> Result<([u8; 16], [u8; 16]), Error> {
    unsafe {
        DERIVE_CALLS += 1;
        DERIVE_REMOTE = remote_id.raw();
        if DERIVE_OK {
            Ok((kani::any(), kani::any()))
        } else {
            Err(Error::InvalidRemotePublicKey)
        }
    }
}

fn any_node_id() -> NodeId {
    let b: [u8; 32] = kani::any();
    NodeId::new(&b)
}

fn any_ghost(key: u8) -> Ghost {
    let has4: bool = kani::any();
    let has6: bool = kani::any();
    Ghost {
        key,
        udp4: if has4 { Some((kani::any(), kani::any())) } else { None },
        udp6: if has6 { Some((kani::any(), kani::any())) } else { None },
        ip4_only: None,
    }
}

fn local_key() -> Arc<RwLock<CombinedKey>> {
    // never inspected: key agreement is stubbed
    let k: CombinedKey = unsafe { std::mem::MaybeUninit::<CombinedKey>::zeroed().assume_init() };
    Arc::new(RwLock::new(k))
}

fn any_challenge_data() -> ChallengeData {
    let b: [u8; 63] = kani::any();
    match ChallengeData::try_from(&b[..]) {
        Ok(c) => c,
        Err(_) => unreachable!(),
    }
}

/// `attached`: 0 none, 1 genuine record of X, 2 record of another identity A.
/// `known`:    false: the victim knows no record of X; true: it knows a genuine record of X.
/// Everything else (ids, sequence numbers, address fields, oracle answers) is symbolic.
fn handshake(attached: u8, known: bool, derive_ok: bool) {
    let x = any_node_id();
    let local = any_node_id();
    let a = any_node_id();
    kani::assume(a.raw() != x.raw());
    let seq_known: u64 = kani::any();
    let seq_att: u64 = kani::any();
    unsafe {
        SIG_X = kani::any();
        SIG_A = kani::any();
        DERIVE_OK = derive_ok;
    }
    let known_enr = if known { Some(mirror_enr(seq_known, x, any_ghost(KEY_X))) } else { None };
    let att_enr = match attached {
        1 => Some(mirror_enr(seq_att, x, any_ghost(KEY_X))),
        2 => Some(mirror_enr(seq_att, a, any_ghost(KEY_A))),
        _ => None,
    };
    let challenge = Challenge {
        data: any_challenge_data(),
        remote_enr: known_enr,
    };
    let sig: [u8; 4] = kani::any();
    let eph: [u8; 4] = kani::any();

    // a second handle keeps the (never inspected) key alive: dropping it would run zeroize's inline asm
    let lk = local_key();
    let lk_keep = lk.clone();
    let r = Session::establish_from_challenge(lk, &local, &x, challenge, &sig, &eph, att_enr);
    std::mem::forget(lk_keep);

    let (sig_x, sig_a, under, calls, dcalls, dremote) =
        unsafe { (SIG_X, SIG_A, VERIFIED_UNDER, VERIFY_CALLS, DERIVE_CALLS, DERIVE_REMOTE) };
    match &r {
        Ok((_session, enr)) => {
            kani::cover!(true, "handshake accepted");
            // soundness: accepted only on a signature that verifies under the key whose hash is X
            assert!(calls >= 1, "accepted without verifying a signature");
            assert!(under == KEY_X, "signature was checked against a key that is not X's");
            assert!(sig_x, "accepted although the signature does not verify under X's key");
            assert!(enr.node_id().raw() == x.raw(), "session for X carries a record of another identity");
            assert!(dcalls == 1 && dremote == x.raw(), "session keys are not bound to the claimed id");
            // the record handed back is the newer of the genuine ones
            if attached == 1 && known {
                assert!(enr.seq() == if seq_att > seq_known { seq_att } else { seq_known });
            }
        }
        Err(e) => {
            kani::cover!(true, "handshake rejected");
            // completeness: a party holding X's key, presenting no record or its own, is accepted
            // whenever the victim has some record of X to check against
            if sig_x && attached != 2 && (known || attached == 1) && derive_ok {
                assert!(false, "genuine handshake rejected");
            }
            // the challenge is handed back for re-use only on a failed signature check
            if let Error::InvalidChallengeSignature(_) = e {
                assert!(calls >= 1);
                assert!(!(under == KEY_X && sig_x) && !(under == KEY_A && sig_a), "valid signature reported invalid");
            }
        }
    }
    std::mem::forget(r);
}

macro_rules! hs {
    ($($name:ident, $att:expr, $known:expr, $dok:expr;)*) => {$(
        #[kani::proof]
        #[kani::unwind(34)]
        #[kani::stub(enr::Enr::public_key, stub_public_key)]
        #[kani::stub(crate::handler::crypto::verify_authentication_nonce, stub_verify)]
        #[kani::stub(crate::handler::crypto::derive_keys_from_pubkey, stub_derive)]
        fn $name() { handshake($att, $known, $dok) }
    )*};
}
hs! {
    c01_no_record_unknown, 0, false, true;
    c01_no_record_known, 0, true, true;
    c01_genuine_record_unknown, 1, false, true;
    c01_genuine_record_known, 1, true, true;
    c01_foreign_record_unknown, 2, false, true;
    c01_foreign_record_known, 2, true, true;
    c01_genuine_record_known_derive_fails, 1, true, false;
    c01_foreign_record_known_derive_fails, 2, true, false;
}

// ---------------------------------------------------------------------------------------------
// verify_enr: the record reported for a peer has the peer's id, and its UDP field of the family
// the packets came from is absent or equal to the observed source
// ---------------------------------------------------------------------------------------------
#[kani::proof]
#[kani::unwind(34)]
#[kani::stub(enr::Enr::udp4_socket, stub_udp4_socket)]
#[kani::stub(enr::Enr::udp6_socket, stub_udp6_socket)]
fn c01_verify_enr_binds_id_and_address() {
    let id = any_node_id();
    let enr_id = any_node_id();
    let g = any_ghost(KEY_X);
    let enr = mirror_enr(kani::any(), enr_id, g);
    let v4: bool = kani::any();
    let socket_addr = if v4 {
        SocketAddr::V4(SocketAddrV4::new(Ipv4Addr::from(kani::any::<[u8; 4]>()), kani::any()))
    } else {
        SocketAddr::V6(SocketAddrV6::new(Ipv6Addr::from(kani::any::<[u8; 16]>()), kani::any(), 0, 0))
    };
    let addr = NodeAddress { socket_addr, node_id: id };
    // verify_enr does not read the handler
    let h = std::mem::MaybeUninit::<Handler>::uninit();
    let ok = unsafe { (*h.as_ptr()).verify_enr(&enr, &addr) };
    let id_ok = enr_id.raw() == id.raw();
    let addr_ok = match socket_addr {
        SocketAddr::V4(s) => match g.udp4 {
            None => true,
            Some((ip, port)) => s.ip().octets() == ip && s.port() == port,
        },
        SocketAddr::V6(s) => match g.udp6 {
            None => true,
            Some((ip, port)) => s.ip().octets() == ip && s.port() == port,
        },
    };
    kani::cover!(ok, "record verifies");
    kani::cover!(!ok && id_ok, "address mismatch");
    kani::cover!(!ok && addr_ok, "id mismatch");
    assert!(ok == (id_ok && addr_ok));
    std::mem::forget(enr);
}

/// The mirror really is laid out like `enr::Enr<CombinedKey>` under this compiler.
#[kani::proof]
#[kani::unwind(34)]
fn c01_enr_mirror_layout_ok() {
    assert!(std::mem::size_of::<EnrMirror>() == std::mem::size_of::<crate::Enr>());
    assert!(std::mem::align_of::<EnrMirror>() == std::mem::align_of::<crate::Enr>());
    let id = any_node_id();
    let seq: u64 = kani::any();
    let g = any_ghost(KEY_A);
    let e = mirror_enr(seq, id, g);
    assert!(e.seq() == seq);
    assert!(e.node_id().raw() == id.raw());
    assert!(e.signature().len() == GHOST_LEN && e.signature()[0] == KEY_A);
    std::mem::forget(e);
}

#[kani::proof]
#[kani::unwind(34)]
#[kani::stub(enr::Enr::public_key, stub_public_key)]
#[kani::stub(crate::handler::crypto::verify_authentication_nonce, stub_verify)]
#[kani::stub(crate::handler::crypto::derive_keys_from_pubkey, stub_derive)]
fn c01_twin_must_fail() {
    handshake(1, true, true);
    assert!(false, "twin");
}
