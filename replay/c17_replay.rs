//! Native replay driver for C17 — `#[cfg(test)]` child of `crate::service::ip_vote` in an unmodified
//! copy of /repo (real HashMaps, real clock).
use super::*;
use std::net::{Ipv4Addr, SocketAddrV4};
use std::thread::sleep;
use std::time::Duration;

fn voter(i: u8) -> NodeId {
    let mut b = [0u8; 32];
    b[0] = 0xab;
    b[31] = i;
    NodeId::new(&b)
}
fn sock(i: u8) -> SocketAddrV4 {
    SocketAddrV4::new(Ipv4Addr::new(10, 0, 0, i), 9000 + i as u16)
}

#[test]
fn verif_replay_c17_votes() {
    let mut bad = 0;
    let long = Duration::from_secs(600);
    // every multiset of up to 7 votes over 3 addresses, in several insertion orders
    for min in 2..=4usize {
        for a in 0..=7usize {
            for b in 0..=(7 - a) {
                for c in 0..=(7 - a - b) {
                    for order in 0..3 {
                        let mut iv = IpVote::new(min, long);
                        let mut votes: Vec<u8> = Vec::new();
                        votes.extend(std::iter::repeat(1).take(a));
                        votes.extend(std::iter::repeat(2).take(b));
                        votes.extend(std::iter::repeat(3).take(c));
                        match order {
                            1 => votes.reverse(),
                            2 => {
                                let n = votes.len();
                                for i in 0..n / 2 {
                                    votes.swap(i, (i * 5 + 3) % n.max(1));
                                }
                            }
                            _ => {}
                        }
                        for (i, v) in votes.iter().enumerate() {
                            iv.insert(voter(i as u8), sock(*v));
                        }
                        let counts = [a, b, c];
                        let thr = |m: usize| ((m as f64) * 0.7).round() as usize;
                        let mut want = None;
                        for x in 0..3 {
                            let (r1, r2) = ((x + 1) % 3, (x + 2) % 3);
                            if counts[x] >= min && counts[r1] < thr(counts[x]) && counts[r2] < thr(counts[x]) {
                                want = Some(sock(x as u8 + 1));
                            }
                        }
                        let got = iv.majority().0;
                        if got != want {
                            bad += 1;
                            if bad < 4 {
                                println!("VERIF-REPLAY reproduced class=majority-differs-from-clear-majority-rule min={} counts={:?} got={:?} want={:?}", min, counts, got, want);
                            }
                        }
                    }
                }
            }
        }
    }
    // a voter that changes its vote counts once, for its latest address
    {
        let mut iv = IpVote::new(2, long);
        iv.insert(voter(1), sock(1));
        iv.insert(voter(1), sock(2));
        iv.insert(voter(2), sock(1));
        if iv.majority().0.is_some() {
            bad += 1;
            println!("VERIF-REPLAY reproduced class=changed-vote-still-counts-for-old-address");
        }
        iv.insert(voter(2), sock(2));
        if iv.majority().0 != Some(sock(2)) {
            bad += 1;
            println!("VERIF-REPLAY reproduced class=latest-votes-not-counted");
        }
    }
    // expired votes do not count (first majority() call after expiry included)
    {
        let mut iv = IpVote::new(2, Duration::from_millis(60));
        iv.insert(voter(1), sock(1));
        sleep(Duration::from_millis(150));
        iv.insert(voter(2), sock(1));
        if iv.majority().0.is_some() {
            bad += 1;
            println!("VERIF-REPLAY reproduced class=expired-vote-counted");
        }
        let mut iv = IpVote::new(2, Duration::from_millis(60));
        iv.insert(voter(1), sock(1));
        iv.insert(voter(2), sock(1));
        iv.insert(voter(3), sock(1));
        sleep(Duration::from_millis(150));
        iv.insert(voter(4), sock(2));
        if iv.majority().0.is_some() || iv.has_minimum_threshold().0 {
            bad += 1;
            println!("VERIF-REPLAY reproduced class=expired-vote-counted variant=threshold");
        }
        // a re-vote refreshes the lifetime
        let mut iv = IpVote::new(2, Duration::from_millis(300));
        iv.insert(voter(1), sock(1));
        iv.insert(voter(2), sock(1));
        sleep(Duration::from_millis(200));
        iv.insert(voter(1), sock(1));
        iv.insert(voter(2), sock(1));
        sleep(Duration::from_millis(200));
        if iv.majority().0 != Some(sock(1)) {
            bad += 1;
            println!("VERIF-REPLAY reproduced class=fresh-votes-dropped");
        }
    }
    println!("VERIF-REPLAY done bad={}", bad);
}
