#!/bin/bash
# Run once after a fresh restore (offline). Nothing is built ahead of time: every check rebuilds its
# scratch copy from /repo's current working tree.  This only verifies that the pinned tools answer.
set -e
export PATH="$HOME/.cargo/bin:$PATH"
export CARGO_NET_OFFLINE=true
cargo kani --version
cbmc --version
z3 --version
cvc5 --version | head -1
python3 -c "import json,sys; json.load(open('/verif/MANIFEST.json')); print('manifest ok')"
mkdir -p /verif/evidence /verif/replays /verif/logs
# native self-test: container models vs the real containers, and every replay driver on the current tree
# (diagnostic: a problem is printed but does not stop the checks from being usable - the drivers with real
# sleeps can be disturbed by a loaded machine)
python3 /verif/tools/selftest.py || echo "WARNING: native self-test reported a problem (see above)"
