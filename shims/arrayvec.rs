//! S-vec: `arrayvec::ArrayVec` modelled with the same storage idea (inline array + length, `Deref` to a
//! slice, so every slice method keeps working) but with element moves done slot by slot over
//! *concrete* indices.  The real crate shifts elements with `ptr::copy(src, dst, symbolic count)`,
//! which exhausted 54 GB in CBMC.
use std::mem::MaybeUninit;
use std::ops::{Deref, DerefMut};

pub struct ArrayVec<T, const CAP: usize> {
    xs: [MaybeUninit<T>; CAP],
    len: usize,
}

#[derive(Debug, Clone, Copy, PartialEq, Eq)]
pub struct CapacityError<T = ()>(pub T);

impl<T, const CAP: usize> ArrayVec<T, CAP> {
    pub fn new() -> Self {
        ArrayVec { xs: [const { MaybeUninit::uninit() }; CAP], len: 0 }
    }
    pub const fn new_const() -> Self {
        ArrayVec { xs: [const { MaybeUninit::uninit() }; CAP], len: 0 }
    }
    pub fn len(&self) -> usize {
        self.len
    }
    pub fn is_empty(&self) -> bool {
        self.len == 0
    }
    pub fn capacity(&self) -> usize {
        CAP
    }
    pub fn is_full(&self) -> bool {
        self.len == CAP
    }
    pub fn remaining_capacity(&self) -> usize {
        CAP - self.len
    }
    pub fn as_slice(&self) -> &[T] {
        unsafe { std::slice::from_raw_parts(self.xs.as_ptr() as *const T, self.len) }
    }
    pub fn as_mut_slice(&mut self) -> &mut [T] {
        unsafe { std::slice::from_raw_parts_mut(self.xs.as_mut_ptr() as *mut T, self.len) }
    }
    /// reads slot i out (concrete slot index selected by a loop over 0..CAP)
    unsafe fn take_slot(&mut self, i: usize) -> T {
        let mut j = 0;
        while j + 1 < CAP {
            if j == i {
                return self.xs[j].assume_init_read();
            }
            j += 1;
        }
        self.xs[CAP - 1].assume_init_read()
    }
    fn put_slot(&mut self, i: usize, t: T) {
        let mut t = Some(t);
        let mut j = 0;
        while j + 1 < CAP {
            if j == i {
                if let Some(v) = t.take() {
                    self.xs[j].write(v);
                }
                return;
            }
            j += 1;
        }
        if let Some(v) = t.take() {
            self.xs[CAP - 1].write(v);
        }
    }
    pub fn push(&mut self, t: T) {
        assert!(self.len < CAP, "ArrayVec::push: capacity exceeded");
        let n = self.len;
        self.put_slot(n, t);
        self.len += 1;
    }
    pub fn try_push(&mut self, t: T) -> Result<(), CapacityError<T>> {
        if self.len < CAP {
            self.push(t);
            Ok(())
        } else {
            Err(CapacityError(t))
        }
    }
    pub fn pop(&mut self) -> Option<T> {
        if self.len == 0 {
            None
        } else {
            self.len -= 1;
            let n = self.len;
            Some(unsafe { self.take_slot(n) })
        }
    }
    /// panics if out of bounds, like the original
    pub fn remove(&mut self, i: usize) -> T {
        assert!(i < self.len, "ArrayVec::remove: index is out of bounds");
        let out = unsafe { self.take_slot(i) };
        // shift the tail down by one, slot by slot
        let mut j = 0;
        while j + 1 < CAP {
            if j >= i && j + 1 < self.len {
                unsafe {
                    let v = self.xs[j + 1].assume_init_read();
                    self.xs[j].write(v);
                }
            }
            j += 1;
        }
        self.len -= 1;
        out
    }
    pub fn pop_at(&mut self, i: usize) -> Option<T> {
        if i < self.len {
            Some(self.remove(i))
        } else {
            None
        }
    }
    pub fn swap_remove(&mut self, i: usize) -> T {
        assert!(i < self.len);
        let last = self.len - 1;
        self.as_mut_slice().swap(i, last);
        self.pop().unwrap()
    }
    /// panics if out of bounds or full, like the original
    pub fn insert(&mut self, i: usize, t: T) {
        assert!(i <= self.len, "ArrayVec::insert: index is out of bounds");
        assert!(self.len < CAP, "ArrayVec::insert: capacity exceeded");
        // shift the tail up by one, from the back
        let mut j = CAP - 1;
        while j > 0 {
            if j > i && j <= self.len {
                unsafe {
                    let v = self.xs[j - 1].assume_init_read();
                    self.xs[j].write(v);
                }
            }
            j -= 1;
        }
        self.put_slot(i, t);
        self.len += 1;
    }
    pub fn try_insert(&mut self, i: usize, t: T) -> Result<(), CapacityError<T>> {
        if self.len < CAP {
            self.insert(i, t);
            Ok(())
        } else {
            Err(CapacityError(t))
        }
    }
    pub fn truncate(&mut self, n: usize) {
        let mut k = 0;
        while k < CAP {
            if self.len > n {
                let _ = self.pop();
            }
            k += 1;
        }
    }
    pub fn clear(&mut self) {
        self.truncate(0)
    }
    pub fn retain<F: FnMut(&mut T) -> bool>(&mut self, mut f: F) {
        let n = self.len;
        let mut out: ArrayVec<T, CAP> = ArrayVec::new();
        let mut j = 0;
        while j < CAP {
            if j < n {
                let mut v = unsafe { self.xs[j].assume_init_read() };
                if f(&mut v) {
                    out.push(v);
                }
            }
            j += 1;
        }
        self.len = 0;
        *self = out;
    }
    pub fn drain_all(&mut self) -> IntoIter<T, CAP> {
        let n = self.len;
        self.len = 0;
        let mut out: ArrayVec<T, CAP> = ArrayVec::new();
        let mut j = 0;
        while j < CAP {
            if j < n {
                out.push(unsafe { self.xs[j].assume_init_read() });
            }
            j += 1;
        }
        out.into_iter()
    }
}

impl<T, const CAP: usize> Default for ArrayVec<T, CAP> {
    fn default() -> Self {
        Self::new()
    }
}
impl<T, const CAP: usize> Deref for ArrayVec<T, CAP> {
    type Target = [T];
    fn deref(&self) -> &[T] {
        self.as_slice()
    }
}
impl<T, const CAP: usize> DerefMut for ArrayVec<T, CAP> {
    fn deref_mut(&mut self) -> &mut [T] {
        self.as_mut_slice()
    }
}
impl<T, const CAP: usize> Drop for ArrayVec<T, CAP> {
    fn drop(&mut self) {
        let mut k = 0;
        while k < CAP {
            if self.len > 0 {
                let _ = self.pop();
            }
            k += 1;
        }
    }
}
impl<T: Clone, const CAP: usize> Clone for ArrayVec<T, CAP> {
    fn clone(&self) -> Self {
        let mut out = ArrayVec::new();
        let mut j = 0;
        while j < CAP {
            if j < self.len {
                out.push(self.as_slice()[j].clone());
            }
            j += 1;
        }
        out
    }
}
impl<T: std::fmt::Debug, const CAP: usize> std::fmt::Debug for ArrayVec<T, CAP> {
    fn fmt(&self, f: &mut std::fmt::Formatter<'_>) -> std::fmt::Result {
        self.as_slice().fmt(f)
    }
}
impl<T: PartialEq, const CAP: usize> PartialEq for ArrayVec<T, CAP> {
    fn eq(&self, o: &Self) -> bool {
        self.as_slice() == o.as_slice()
    }
}
impl<T: Eq, const CAP: usize> Eq for ArrayVec<T, CAP> {}
impl<T, const CAP: usize> std::iter::FromIterator<T> for ArrayVec<T, CAP> {
    fn from_iter<I: IntoIterator<Item = T>>(it: I) -> Self {
        let mut out = ArrayVec::new();
        for v in it {
            out.push(v);
        }
        out
    }
}
impl<T, const CAP: usize> Extend<T> for ArrayVec<T, CAP> {
    fn extend<I: IntoIterator<Item = T>>(&mut self, it: I) {
        for v in it {
            self.push(v);
        }
    }
}
impl<'a, T, const CAP: usize> IntoIterator for &'a ArrayVec<T, CAP> {
    type Item = &'a T;
    type IntoIter = std::slice::Iter<'a, T>;
    fn into_iter(self) -> Self::IntoIter {
        self.as_slice().iter()
    }
}
impl<'a, T, const CAP: usize> IntoIterator for &'a mut ArrayVec<T, CAP> {
    type Item = &'a mut T;
    type IntoIter = std::slice::IterMut<'a, T>;
    fn into_iter(self) -> Self::IntoIter {
        self.as_mut_slice().iter_mut()
    }
}

pub struct IntoIter<T, const CAP: usize> {
    v: ArrayVec<T, CAP>,
    pos: usize,
}
impl<T, const CAP: usize> Iterator for IntoIter<T, CAP> {
    type Item = T;
    fn next(&mut self) -> Option<T> {
        if self.pos < CAP && self.pos < self.v.len {
            let p = self.pos;
            self.pos += 1;
            Some(unsafe { self.v.take_slot(p) })
        } else {
            None
        }
    }
}
impl<T, const CAP: usize> Drop for IntoIter<T, CAP> {
    fn drop(&mut self) {
        // drop what was not yielded; then make the inner vector forget everything
        let mut k = 0;
        while k < CAP {
            if self.pos < self.v.len {
                let p = self.pos;
                self.pos += 1;
                drop(unsafe { self.v.take_slot(p) });
            }
            k += 1;
        }
        self.v.len = 0;
    }
}
impl<T, const CAP: usize> IntoIterator for ArrayVec<T, CAP> {
    type Item = T;
    type IntoIter = IntoIter<T, CAP>;
    fn into_iter(self) -> IntoIter<T, CAP> {
        IntoIter { v: self, pos: 0 }
    }
}
