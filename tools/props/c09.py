"""C09  Iterative queries: bounded parallelism, no peer twice, finish conditions (FindNodeQuery::next / on_failure steps)."""
from vlib import *

PID = "C09"
LEVEL = "model_checking"
MOD = "query_pool::peers::closest::verif_c09::"
INJ = [("src/query_pool/peers/closest.rs", "c09_replay.rs", "verif_replay_c09")]

FUNCTIONS = ["query_pool::peers::closest::FindNodeQuery::{with_config, next, on_failure, at_capacity} instantiated at a 1-byte id type"]
BOUNDS = {"quick": "inductive step of next() from every lookup state with 1 candidate in any per-peer state, any deadline and current time, parallelism 1..3, "
                   "num_results 1..3, any progress stage; loops unwound 11",
          "thorough": "as quick plus next() with 2 and 3 candidates and on_failure() with 2 candidates (6 M SAT variables, 6-14 minutes and up to 48 GB each)"}
OUTSIDE = ["on_success (incorporating reported peers) and into_result did not leave symbolic execution in 700-1200 s even for 1-2 candidates: C10 is not claimed, and the "
           "C09 clauses that depend on on_success (late answers, candidates learnt during the lookup) are not decided",
           "PredicateQuery (same shape, not encoded)", "QueryPool::poll, the pool-level timeout and the result callback in the async Service",
           "termination as a liveness statement: what is decided is that next() never idles with nothing in flight and nothing left to contact; that requests in flight end is the Handler's request timeout"]
ASSUMPTIONS = ["S-btree: std BTreeMap replaced by the sorted-list model (differentially tested)", "time is the `now` argument of next(): no clock stub needed",
               "S-log, S-lock; pointer-validity checks off, panics/overflow/unwinding assertions on"]
US = ["memcmp.0:34"]


def prepare(sub, tier):
    apply_common_substitutions(sub)
    sub.regex("src/query_pool/peers/closest.rs", r"collections::btree_map::\{BTreeMap, Entry\}", "time::SystemTime as _VerifUnused", "S-btree(drop std import)")
    sub.regex("src/query_pool/peers/closest.rs", r"^use super::\*;", "use super::*;\nuse crate::verif_shims::btree_map::{BTreeMap, Entry};", "S-btree")
    inject_harness(sub, "src/query_pool/peers/closest.rs", "c09_closest.rs", "verif_c09")


def specs(tier, seed):
    S = [dict(harness=MOD + "c09_next_n1", obligation="next(): num_waiting in sync, new request only below capacity and only to the closest not-yet-contacted peer, "
              "never idle with nothing in flight, finished is absorbing, finishing with too few results only when every candidate was contacted (1 candidate)",
              bounds="see bounds", timeout=1500, mem_gb=12, covers=["a new request is issued", "lookup finishes"], unwindset=list(US), auto_unwind=34)]
    if tier == "thorough":
        for n, o in (("c09_next_n2", "next() with 2 candidates"), ("c09_next_n3", "next() with 3 candidates"), ("c09_on_failure_n2", "on_failure(): only an outstanding request of that peer is marked failed")):
            S.append(dict(harness=MOD + n, obligation=o, bounds="see bounds", timeout=2400, mem_gb=48, covers=[], unwindset=list(US), auto_unwind=34))
    S.append(dict(harness=MOD + "c09_twin_must_fail", obligation="vacuity twin", bounds="-", timeout=2400, mem_gb=48, kind="twin", unwindset=list(US), auto_unwind=34))
    return S


def replay(cases, tier, dst):
    return replay_cases(cases, tier, dst, INJ, "verif_replay_c09", once=True)


def replay_file(path):
    return replay_file_generic(path, INJ, "verif_replay_c09")
