//! C05 (and C02 obligation (a)) harnesses — child module of `crate::packet` in the scratch copy.
//! Substitutions: S-ctr (header masking = XOR with a keystream determined by (key, iv)), S-enr wire
//! model for embedded records (`<Enr>::decode` / `alloy_rlp::encode` of a record), S-rng.
#![allow(dead_code, unused_imports, static_mut_refs)]
use super::*;
use crate::verif_shims::ctr::{CREATED, LAST_IV, LAST_KEY, STREAM_A, STREAM_B, STREAM_LEN};
use crate::verif_shims::enr_mirror::*;

fn any_id() -> NodeId {
    let b: [u8; 32] = kani::any();
    NodeId::new(&b)
}
fn any_pi() -> ProtocolIdentity {
    ProtocolIdentity { protocol_id: kani::any(), protocol_version: kani::any() }
}
/// a fixed non-trivial keystream: masking is XOR with a stream that does not depend on the data, so
/// the round trip is the same computation for every stream; a concrete one keeps the lengths that
/// travel through mask + unmask concrete for the symbolic executor
const fn pattern(m: u8, a: u8) -> [u8; STREAM_LEN] {
    let mut s = [0u8; STREAM_LEN];
    let mut i = 0;
    while i < STREAM_LEN {
        s[i] = (i as u8).wrapping_mul(m).wrapping_add(a);
        i += 1;
    }
    s
}
const PATTERN_A: [u8; STREAM_LEN] = pattern(37, 11);
const PATTERN_B: [u8; STREAM_LEN] = pattern(91, 5);
fn concrete_stream() {
    unsafe {
        STREAM_A = PATTERN_A;
        STREAM_B = PATTERN_B;
    }
}
fn symbolic_stream() {
    unsafe {
        STREAM_A = kani::any();
        STREAM_B = kani::any();
    }
}
/// `n` symbolic bytes (n <= 96) without a loop
fn bytes(n: usize) -> Vec<u8> {
    let a: [u8; 96] = kani::any();
    a[..n].to_vec()
}

/// kind 0 message, 1 whoareyou, 2 handshake without record, 3 handshake with record
fn build(kind: u8, src: NodeId, sig: &[u8], key: &[u8], id_nonce: IdNonce, enr_seq: u64, rec: (u64, NodeId, [u8; 4])) -> PacketKind {
    match kind {
        0 => PacketKind::Message { src_id: src },
        1 => PacketKind::WhoAreYou { id_nonce, enr_seq },
        _ => PacketKind::Handshake {
            src_id: src,
            id_nonce_sig: sig.to_vec(),
            ephem_pubkey: key.to_vec(),
            enr_record: if kind == 3 {
                Some(mirror_enr(rec.0, rec.1, Ghost { key: KEY_SECP, udp4: Some((rec.2, 9000)), udp6: None, ip4_only: None }))
            } else {
                None
            },
        },
    }
}

/// The datagram `encode` produces has the discv5.1 layout  iv || (header XOR keystream(dst[..16], iv)) || body,
/// the header is  protocol-id || version || flag || nonce || authdata-size || authdata,  and
/// `authenticated_data()` is iv || header.  The keystream is symbolic.
fn encode_layout(kind: u8, sig_len: usize, key_len: usize, body_len: usize) {
    symbolic_stream();
    let dst = any_id();
    let pi = any_pi();
    let iv: u128 = kani::any();
    let nonce: MessageNonce = kani::any();
    let src = any_id();
    let sig = bytes(sig_len);
    let key = bytes(key_len);
    let id_nonce: IdNonce = kani::any();
    let enr_seq: u64 = kani::any();
    let rec = (kani::any::<u64>(), any_id(), kani::any::<[u8; 4]>());
    let body = if kind == 1 { Vec::new() } else { bytes(body_len) };
    let k: usize = kani::any();

    let p1 = Packet { iv, header: PacketHeader { message_nonce: nonce, protocol_identity: pi, kind: build(kind, src, &sig, &key, id_nonce, enr_seq, rec) }, message: body.to_vec() };
    let plain_header = p1.header.encode();
    let auth_data = p1.header.kind.encode();
    let aad = p1.authenticated_data();
    let wire = p1.encode(&dst);

    assert!(wire.len() == 16 + plain_header.len() + body.len());
    assert!(aad.len() == 16 + plain_header.len());
    kani::assume(k < wire.len());
    let ivb = iv.to_be_bytes();
    if k < 16 {
        assert!(wire[k] == ivb[k] && aad[k] == ivb[k], "datagram / authenticated data do not start with the IV");
    } else if k < 16 + plain_header.len() {
        let ks = unsafe { STREAM_A[k - 16] };
        assert!(wire[k] == plain_header[k - 16] ^ ks, "header is not masked with the keystream of (dst id, iv)");
        assert!(aad[k] == plain_header[k - 16], "authenticated data is not iv || unmasked header");
    } else {
        assert!(wire[k] == body[k - 16 - plain_header.len()], "body not appended verbatim");
    }
    unsafe {
        assert!(CREATED == 1, "exactly one cipher per datagram");
        assert!(LAST_KEY[..] == dst.raw()[..16], "masking key is not the first 16 bytes of the destination id");
        assert!(LAST_IV == ivb, "masking iv is not the packet iv");
    }
    // static header
    assert!(plain_header.len() == 23 + auth_data.len());
    assert!(plain_header[..6] == pi.protocol_id && plain_header[6..8] == pi.protocol_version, "protocol id / version");
    assert!(plain_header[8] == if kind >= 2 { 2 } else { kind }, "flag");
    assert!(plain_header[9..21] == nonce, "nonce");
    assert!(u16::from_be_bytes([plain_header[21], plain_header[22]]) as usize == auth_data.len(), "authdata-size");
    let j: usize = kani::any();
    kani::assume(j < auth_data.len());
    assert!(plain_header[23 + j] == auth_data[j], "authdata");
    // authdata per kind
    match kind {
        0 => assert!(auth_data.len() == 32 && auth_data[..] == src.raw()[..]),
        1 => assert!(auth_data.len() == 24 && auth_data[..16] == id_nonce && auth_data[16..] == enr_seq.to_be_bytes()),
        _ => {
            assert!(auth_data[..32] == src.raw()[..] && auth_data[32] as usize == sig_len && auth_data[33] as usize == key_len);
            assert!(auth_data[34..34 + sig_len] == sig[..] && auth_data[34 + sig_len..34 + sig_len + key_len] == key[..]);
            assert!(auth_data.len() == 34 + sig_len + key_len + if kind == 3 { RECORD_WIRE_LEN } else { 0 });
        }
    }
    std::mem::forget((wire, plain_header, auth_data, aad, sig, key, body));
}

/// PacketKind::decode(flag, kind.encode()) == kind
fn kind_round_trip(kind: u8, sig_len: usize, key_len: usize) {
    let src = any_id();
    let sig = bytes(sig_len);
    let key = bytes(key_len);
    let id_nonce: IdNonce = kani::any();
    let enr_seq: u64 = kani::any();
    let rec = (kani::any::<u64>(), any_id(), kani::any::<[u8; 4]>());
    let k1 = build(kind, src, &sig, &key, id_nonce, enr_seq, rec);
    let k2 = build(kind, src, &sig, &key, id_nonce, enr_seq, rec);
    let flag: u8 = (&k1).into();
    assert!(flag == if kind >= 2 { 2 } else { kind });
    let ad = k1.encode();
    match PacketKind::decode(flag, &ad) {
        Ok(d) => {
            assert!(d == k2, "PacketKind::decode(encode(k)) differs from k");
            std::mem::forget(d);
        }
        Err(_) => assert!(false, "well-formed auth-data rejected"),
    }
    // with the record refusing to validate, the handshake is rejected
    if kind == 3 {
        unsafe {
            DECODE_FAILS = true;
        }
        let r = PacketKind::decode(flag, &ad);
        assert!(r.is_err(), "handshake with an invalid record accepted");
        std::mem::forget(r);
    }
    std::mem::forget((k1, k2, ad, sig, key));
}

/// lengths outside 63..=1280 are rejected before anything is read
#[kani::proof]
#[kani::unwind(3)]
fn c05_length_guards() {
    let me = any_id();
    let pi = any_pi();
    let len: usize = kani::any();
    kani::assume(len < 63 || (len > 1280 && len <= 1400));
    // content irrelevant: a zero buffer of that length
    let data = vec![0u8; 1400];
    let r = Packet::decode(&me, pi, &data[..len]);
    assert!(r.is_err(), "datagram shorter than 63 or longer than 1280 bytes accepted");
    std::mem::forget((r, data));
}

/// PacketKind::decode on a fixed-size auth-data buffer with symbolic content
fn kind_decode(kind: u8, n: usize) {
    let ad = bytes(n);
    match PacketKind::decode(kind, &ad) {
        Ok(PacketKind::Message { src_id }) => assert!(kind == 0 && n == 32 && src_id.raw()[..] == ad[..]),
        Ok(PacketKind::WhoAreYou { id_nonce, enr_seq }) => {
            assert!(kind == 1 && n == 24 && id_nonce[..] == ad[..16] && enr_seq.to_be_bytes()[..] == ad[16..24])
        }
        Ok(PacketKind::Handshake { src_id, id_nonce_sig, ephem_pubkey, enr_record }) => {
            kani::cover!(true, "handshake auth-data accepted");
            assert!(kind == 2 && n >= 34);
            let (s, k) = (ad[32] as usize, ad[33] as usize);
            assert!(n >= 34 + s + k, "signature / key sizes exceed the auth-data");
            assert!(src_id.raw()[..] == ad[..32] && id_nonce_sig[..] == ad[34..34 + s] && ephem_pubkey[..] == ad[34 + s..34 + s + k]);
            assert!(enr_record.is_some() == (n > 34 + s + k));
            std::mem::forget((id_nonce_sig, ephem_pubkey, enr_record));
        }
        Err(_) => {
            kani::cover!(true, "auth-data rejected");
            if kind == 0 {
                assert!(n != 32);
            }
            if kind == 1 {
                assert!(n != 24);
            }
        }
    }
    std::mem::forget(ad);
}

macro_rules! harnesses {
    ($u:expr; $($name:ident => $body:expr;)*) => {$(
        #[kani::proof]
        #[kani::unwind($u)]
        fn $name() { $body }
    )*};
}
harnesses! { 40;
    c05_encode_layout_message_b0 => encode_layout(0, 0, 0, 0);
    c05_encode_layout_message_b17 => encode_layout(0, 0, 0, 17);
    c05_encode_layout_whoareyou => encode_layout(1, 0, 0, 0);
    c05_encode_layout_handshake_s0_k0 => encode_layout(2, 0, 0, 5);
    c05_encode_layout_handshake_s3_k2 => encode_layout(2, 3, 2, 1);
    c05_encode_layout_handshake_record => encode_layout(3, 2, 1, 3);
    c05_kind_roundtrip_message => kind_round_trip(0, 0, 0);
    c05_kind_roundtrip_whoareyou => kind_round_trip(1, 0, 0);
    c05_kind_roundtrip_handshake_s0_k0 => kind_round_trip(2, 0, 0);
    c05_kind_roundtrip_handshake_s4_k3 => kind_round_trip(2, 4, 3);
    c05_kind_roundtrip_handshake_record => kind_round_trip(3, 2, 1);
    c05_kind_message_32 => kind_decode(0, 32);
    c05_kind_message_31 => kind_decode(0, 31);
    c05_kind_message_33 => kind_decode(0, 33);
    c05_kind_whoareyou_24 => kind_decode(1, 24);
    c05_kind_whoareyou_25 => kind_decode(1, 25);
    c05_kind_whoareyou_23 => kind_decode(1, 23);
    c05_kind_handshake_33 => kind_decode(2, 33);
    c05_kind_handshake_34 => kind_decode(2, 34);
    c05_kind_handshake_40 => kind_decode(2, 40);
    c05_kind_unknown => kind_decode(3, 32);
    c05_twin_must_fail => { encode_layout(0, 0, 0, 3); assert!(false, "twin"); };
}
