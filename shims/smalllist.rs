//! Fixed-capacity, in-struct list used by the container models.
//!
//! Two constraints of the back end shape this file:
//!  * CBMC copes with an array of `Option<T>` inside a struct; it does not cope with a heap `Vec` whose
//!    length becomes symbolic (every `push` then forks into a reallocation with a symbolic size).
//!  * Kani 0.68 / CBMC 6.11 return wrong data for a *symbolic* index into an array of structs that
//!    contain arrays when that array is itself a struct field (minimal reproducer in DESIGN.md,
//!    appendix B).  Every slot access below therefore uses a *concrete* index selected by a loop over
//!    0..CAP (`j == i` is symbolic, `self.slots[j]` is not).
//! All loops are bounded by the constant CAP, so CBMC unrolls them CAP times at most.
pub const CAP: usize = 8;

#[derive(Clone, Debug)]
pub struct SmallList<T> {
    slots: [Option<T>; CAP],
    len: usize,
}

impl<T> Default for SmallList<T> {
    fn default() -> Self {
        Self::new()
    }
}

impl<T> SmallList<T> {
    pub fn new() -> Self {
        SmallList { slots: [const { None }; CAP], len: 0 }
    }
    pub fn len(&self) -> usize {
        self.len
    }
    pub fn is_empty(&self) -> bool {
        self.len == 0
    }
    fn slot(&self, i: usize) -> &Option<T> {
        let mut j = 0;
        while j < CAP - 1 {
            if j == i {
                return &self.slots[j];
            }
            j += 1;
        }
        assert!(i == CAP - 1, "slot index out of range");
        &self.slots[CAP - 1]
    }
    fn slot_mut(&mut self, i: usize) -> &mut Option<T> {
        let mut j = 0;
        while j < CAP - 1 {
            if j == i {
                return &mut self.slots[j];
            }
            j += 1;
        }
        assert!(i == CAP - 1, "slot index out of range");
        &mut self.slots[CAP - 1]
    }
    /// exceeding the model's capacity is a bound of the harness, not a behaviour of the code
    pub fn push(&mut self, t: T) {
        assert!(self.len < CAP, "container model capacity (8) exceeded: outside the bound of this harness");
        let n = self.len;
        *self.slot_mut(n) = Some(t);
        self.len += 1;
    }
    pub fn pop(&mut self) -> Option<T> {
        if self.len == 0 {
            None
        } else {
            self.len -= 1;
            let n = self.len;
            self.slot_mut(n).take()
        }
    }
    pub fn swap(&mut self, a: usize, b: usize) {
        assert!(a < self.len && b < self.len);
        let x = self.slot_mut(a).take();
        let y = self.slot_mut(b).take();
        *self.slot_mut(a) = y;
        *self.slot_mut(b) = x;
    }
    /// takes the element out of slot i, leaving the slot empty (the caller puts it back or closes the gap)
    pub fn take_at(&mut self, i: usize) -> Option<T> {
        assert!(i < self.len);
        self.slot_mut(i).take()
    }
    pub fn put_at(&mut self, i: usize, t: T) {
        assert!(i < self.len);
        *self.slot_mut(i) = Some(t);
    }
    /// slot i is empty: shift the tail down and shrink
    pub fn close_gap(&mut self, i: usize) {
        assert!(i < self.len);
        let mut j = i;
        for _ in 0..CAP {
            if j + 1 >= self.len {
                break;
            }
            let x = self.slot_mut(j + 1).take();
            *self.slot_mut(j) = x;
            j += 1;
        }
        self.len -= 1;
    }
    pub fn get(&self, i: usize) -> Option<&T> {
        if i < self.len {
            self.slot(i).as_ref()
        } else {
            None
        }
    }
    pub fn get_mut(&mut self, i: usize) -> Option<&mut T> {
        if i < self.len {
            self.slot_mut(i).as_mut()
        } else {
            None
        }
    }
    pub fn first(&self) -> Option<&T> {
        self.get(0)
    }
    pub fn last(&self) -> Option<&T> {
        if self.len == 0 {
            None
        } else {
            self.get(self.len - 1)
        }
    }
    /// removes element i, keeping the order of the others (adjacent swaps, then pop)
    pub fn remove(&mut self, i: usize) -> T {
        self.move_to_back(i);
        self.pop().unwrap()
    }
    /// inserts at position i, keeping the order of the others
    pub fn insert(&mut self, i: usize, t: T) {
        assert!(i <= self.len);
        self.push(t);
        let mut j = self.len - 1;
        for _ in 0..CAP {
            if j <= i {
                break;
            }
            self.swap(j, j - 1);
            j -= 1;
        }
    }
    pub fn move_to_back(&mut self, i: usize) {
        assert!(i < self.len);
        let mut j = i;
        for _ in 0..CAP {
            if j + 1 >= self.len {
                break;
            }
            self.swap(j, j + 1);
            j += 1;
        }
    }
    pub fn move_to_front(&mut self, i: usize) {
        assert!(i < self.len);
        let mut j = i;
        for _ in 0..CAP {
            if j == 0 {
                break;
            }
            self.swap(j, j - 1);
            j -= 1;
        }
    }
    /// keeps the elements for which `f` returns true, preserving their order (rebuilds the list: one
    /// pass with concrete slot indices instead of nested shifting with symbolic ones)
    pub fn retain<F: FnMut(&mut T) -> bool>(&mut self, mut f: F) {
        let n = self.len;
        let mut out: SmallList<T> = SmallList::new();
        for j in 0..CAP {
            if j >= n {
                break;
            }
            if let Some(mut t) = self.slots[j].take() {
                if f(&mut t) {
                    out.push(t);
                }
            }
        }
        *self = out;
    }
    pub fn clear(&mut self) {
        for _ in 0..CAP {
            if self.pop().is_none() {
                break;
            }
        }
    }
    pub fn iter(&self) -> Iter<'_, T> {
        Iter { list: self, pos: 0 }
    }
    pub fn iter_mut(&mut self) -> IterMut<'_, T> {
        let n = self.len;
        IterMut { inner: self.slots.iter_mut().take(n) }
    }
}

impl<T> std::ops::Index<usize> for SmallList<T> {
    type Output = T;
    fn index(&self, i: usize) -> &T {
        assert!(i < self.len, "index out of bounds");
        self.slot(i).as_ref().unwrap()
    }
}
impl<T> std::ops::IndexMut<usize> for SmallList<T> {
    fn index_mut(&mut self, i: usize) -> &mut T {
        assert!(i < self.len, "index out of bounds");
        self.slot_mut(i).as_mut().unwrap()
    }
}

pub struct Iter<'a, T> {
    list: &'a SmallList<T>,
    pos: usize,
}
impl<'a, T> Iterator for Iter<'a, T> {
    type Item = &'a T;
    fn next(&mut self) -> Option<&'a T> {
        if self.pos < CAP && self.pos < self.list.len {
            let r = self.list.slot(self.pos).as_ref();
            self.pos += 1;
            r
        } else {
            None
        }
    }
}
pub struct IterMut<'a, T> {
    inner: std::iter::Take<std::slice::IterMut<'a, Option<T>>>,
}
impl<'a, T> Iterator for IterMut<'a, T> {
    type Item = &'a mut T;
    fn next(&mut self) -> Option<&'a mut T> {
        match self.inner.next() {
            Some(o) => o.as_mut(),
            None => None,
        }
    }
}
pub struct IntoIter<T> {
    list: SmallList<T>,
    pos: usize,
}
impl<T> Iterator for IntoIter<T> {
    type Item = T;
    fn next(&mut self) -> Option<T> {
        if self.pos < CAP && self.pos < self.list.len {
            let p = self.pos;
            let r = self.list.slot_mut(p).take();
            self.pos += 1;
            r
        } else {
            None
        }
    }
}
impl<T> IntoIterator for SmallList<T> {
    type Item = T;
    type IntoIter = IntoIter<T>;
    fn into_iter(self) -> IntoIter<T> {
        IntoIter { list: self, pos: 0 }
    }
}
