"""C01  Handshake proves node identity (acceptance kernel: Session::establish_from_challenge + Handler::verify_enr)."""
from vlib import *

PID = "C01"
LEVEL = "model_checking"
VALIDATE_STUBS = True
MOD = "handler::verif_c01::"
INJ = [("src/handler/mod.rs", "c01_replay.rs", "verif_replay_c01")]

FUNCTIONS = ["handler::session::Session::establish_from_challenge", "handler::Handler::verify_enr",
             "handler::session::Session::new", "enr::Enr::{seq, node_id} (real accessors on mirror records)"]
BOUNDS = {"quick": "one handshake packet; claimed id X, local id, other identity A != X: all 32-byte values; attached record in {none, genuine "
                   "record of X, record of A} and known record in {none, genuine record of X} (one harness per combination) with every u64 "
                   "sequence number and every address field; both oracle answers (signature verifies under X's key / under A's key) symbolic; "
                   "key agreement succeeds or fails; loops unwound 34 (32-byte id compares)"}
BOUNDS["thorough"] = BOUNDS["quick"]
OUTSIDE = ["the async Handler plumbing around the kernel (handle_auth_message files the session, emits Established / UnverifiableEnr, "
           "the service's routing-table removal): not compilable by Kani (tokio, HashMapDelay)",
           "interleavings with genuine traffic from X; challenge freshness and single use (C03)",
           "secp256k1 ECDSA/ECDH, HKDF and the enr crate's record validation: trusted (S-sig, S-enr)"]
ASSUMPTIONS = [
    "S-enr: records are mirror objects of enr::Enr (layout checked by c01_enr_mirror_layout_ok under Kani's compiler); Enr::public_key, "
    "udp4_socket, udp6_socket stubbed to read ghost attributes; a record has node id X iff its key is X's key (trusted: the enr crate)",
    "S-sig: verify_authentication_nonce is an oracle answering per key; derive_keys_from_pubkey returns arbitrary keys or fails; "
    "a party without X's secret key cannot make the oracle accept under X's key (ECDSA unforgeability + fresh id-nonce)",
    "S-log, S-lock; pointer-validity checks off, panics/overflow/unwinding assertions on",
    "counterexamples are confirmed natively with two real secp256k1 key pairs, real signed records and a real signature",
]
H = [("c01_no_record_unknown", "no record attached, X unknown: rejected", ["handshake rejected"]),
     ("c01_no_record_known", "no record attached, X known: accepted iff signature verifies under X's key", ["handshake rejected", "handshake accepted"]),
     ("c01_genuine_record_unknown", "genuine record attached, X unknown", ["handshake rejected", "handshake accepted"]),
     ("c01_genuine_record_known", "genuine record attached, X known (any two sequence numbers): newer record returned", ["handshake rejected", "handshake accepted"]),
     ("c01_foreign_record_unknown", "record of another identity attached, X unknown: never a session for X on that record's key", ["handshake rejected"]),
     ("c01_foreign_record_known", "record of another identity attached (any seq), X known", ["handshake rejected"]),
     ("c01_genuine_record_known_derive_fails", "key agreement fails: rejected", ["handshake rejected"]),
     ("c01_foreign_record_known_derive_fails", "key agreement fails, foreign record: rejected", ["handshake rejected"]),
     ("c01_verify_enr_binds_id_and_address", "verify_enr(enr, addr) <=> enr.node_id == addr.node_id and the UDP field of the source's family is absent or equal to the source",
      ["record verifies", "address mismatch", "id mismatch"]),
     ("c01_enr_mirror_layout_ok", "mirror record layout = enr::Enr layout under Kani's compiler", [])]


def prepare(sub, tier):
    apply_common_substitutions(sub)
    inject_harness(sub, "src/handler/mod.rs", "c01_handshake.rs", "verif_c01")


def specs(tier, seed):
    S = [dict(harness=MOD + n, obligation=o, bounds="see bounds", timeout=1200, mem_gb=8, covers=c) for n, o, c in H]
    S.append(dict(harness=MOD + "c01_twin_must_fail", obligation="vacuity twin", bounds="-", timeout=1200, mem_gb=8, kind="twin"))
    return S


def replay(cases, tier, dst):
    return replay_cases(cases, tier, dst, INJ, "verif_replay_c01", once=True)


def replay_file(path):
    return replay_file_generic(path, INJ, "verif_replay_c01")
