//! S-hash (hashlink): `hashlink::LinkedHashMap` modelled as an insertion-ordered association list.
//! Same observable semantics for the API subset below: `insert` of an existing key replaces the value
//! and moves the entry to the back; `front`/`pop_front` address the oldest entry.  Elements are moved
//! by adjacent swaps (no `ptr::copy` with a symbolic count, which CBMC cannot digest).
use std::borrow::Borrow;

#[derive(Clone, Debug)]
pub struct LinkedHashMap<K, V> {
    pub items: Vec<(K, V)>,
}

impl<K, V> Default for LinkedHashMap<K, V> {
    fn default() -> Self {
        LinkedHashMap { items: Vec::new() }
    }
}

impl<K: Eq, V> LinkedHashMap<K, V> {
    pub fn new() -> Self {
        LinkedHashMap { items: Vec::new() }
    }
    pub fn with_capacity(n: usize) -> Self {
        LinkedHashMap { items: Vec::with_capacity(n) }
    }
    pub fn len(&self) -> usize {
        self.items.len()
    }
    pub fn is_empty(&self) -> bool {
        self.items.is_empty()
    }
    pub fn clear(&mut self) {
        while self.items.pop().is_some() {}
    }
    fn pos<Q: ?Sized + Eq>(&self, k: &Q) -> Option<usize>
    where
        K: Borrow<Q>,
    {
        let mut i = 0;
        while i < self.items.len() {
            if self.items[i].0.borrow() == k {
                return Some(i);
            }
            i += 1;
        }
        None
    }
    /// moves element i to the back by adjacent swaps
    fn rotate_to_back(&mut self, i: usize) {
        let n = self.items.len();
        let mut j = i;
        while j + 1 < n {
            self.items.swap(j, j + 1);
            j += 1;
        }
    }
    fn rotate_to_front(&mut self, i: usize) {
        let mut j = i;
        while j > 0 {
            self.items.swap(j, j - 1);
            j -= 1;
        }
    }
    fn take_at(&mut self, i: usize) -> (K, V) {
        self.rotate_to_back(i);
        self.items.pop().unwrap()
    }
    pub fn contains_key<Q: ?Sized + Eq>(&self, k: &Q) -> bool
    where
        K: Borrow<Q>,
    {
        self.pos(k).is_some()
    }
    pub fn get<Q: ?Sized + Eq>(&self, k: &Q) -> Option<&V>
    where
        K: Borrow<Q>,
    {
        match self.pos(k) {
            Some(i) => Some(&self.items[i].1),
            None => None,
        }
    }
    pub fn get_mut<Q: ?Sized + Eq>(&mut self, k: &Q) -> Option<&mut V>
    where
        K: Borrow<Q>,
    {
        match self.pos(k) {
            Some(i) => Some(&mut self.items[i].1),
            None => None,
        }
    }
    pub fn get_key_value<Q: ?Sized + Eq>(&self, k: &Q) -> Option<(&K, &V)>
    where
        K: Borrow<Q>,
    {
        match self.pos(k) {
            Some(i) => Some((&self.items[i].0, &self.items[i].1)),
            None => None,
        }
    }
    pub fn insert(&mut self, k: K, v: V) -> Option<V> {
        let old = match self.pos(&k) {
            Some(i) => Some(self.take_at(i).1),
            None => None,
        };
        self.items.push((k, v));
        old
    }
    /// like `insert` but an existing entry keeps its position
    pub fn replace(&mut self, k: K, v: V) -> Option<V> {
        match self.pos(&k) {
            Some(i) => Some(std::mem::replace(&mut self.items[i].1, v)),
            None => {
                self.items.push((k, v));
                None
            }
        }
    }
    pub fn remove<Q: ?Sized + Eq>(&mut self, k: &Q) -> Option<V>
    where
        K: Borrow<Q>,
    {
        match self.pos(k) {
            Some(i) => Some(self.take_at(i).1),
            None => None,
        }
    }
    pub fn remove_entry<Q: ?Sized + Eq>(&mut self, k: &Q) -> Option<(K, V)>
    where
        K: Borrow<Q>,
    {
        match self.pos(k) {
            Some(i) => Some(self.take_at(i)),
            None => None,
        }
    }
    pub fn pop_front(&mut self) -> Option<(K, V)> {
        if self.items.is_empty() {
            None
        } else {
            Some(self.take_at(0))
        }
    }
    pub fn pop_back(&mut self) -> Option<(K, V)> {
        self.items.pop()
    }
    pub fn front(&self) -> Option<(&K, &V)> {
        match self.items.first() {
            Some(e) => Some((&e.0, &e.1)),
            None => None,
        }
    }
    pub fn back(&self) -> Option<(&K, &V)> {
        match self.items.last() {
            Some(e) => Some((&e.0, &e.1)),
            None => None,
        }
    }
    pub fn to_back<Q: ?Sized + Eq>(&mut self, k: &Q) -> Option<&mut V>
    where
        K: Borrow<Q>,
    {
        match self.pos(k) {
            Some(i) => {
                self.rotate_to_back(i);
                let n = self.items.len();
                Some(&mut self.items[n - 1].1)
            }
            None => None,
        }
    }
    pub fn to_front<Q: ?Sized + Eq>(&mut self, k: &Q) -> Option<&mut V>
    where
        K: Borrow<Q>,
    {
        match self.pos(k) {
            Some(i) => {
                self.rotate_to_front(i);
                Some(&mut self.items[0].1)
            }
            None => None,
        }
    }
    pub fn iter(&self) -> impl DoubleEndedIterator<Item = (&K, &V)> + '_ {
        self.items.iter().map(|e| (&e.0, &e.1))
    }
    pub fn iter_mut(&mut self) -> impl DoubleEndedIterator<Item = (&K, &mut V)> + '_ {
        self.items.iter_mut().map(|e| (&e.0, &mut e.1))
    }
    pub fn keys(&self) -> impl DoubleEndedIterator<Item = &K> + '_ {
        self.items.iter().map(|e| &e.0)
    }
    pub fn values(&self) -> impl DoubleEndedIterator<Item = &V> + '_ {
        self.items.iter().map(|e| &e.1)
    }
    pub fn values_mut(&mut self) -> impl DoubleEndedIterator<Item = &mut V> + '_ {
        self.items.iter_mut().map(|e| &mut e.1)
    }
    pub fn retain<F: FnMut(&K, &mut V) -> bool>(&mut self, mut f: F) {
        let mut i = 0;
        while i < self.items.len() {
            let keep = {
                let e = &mut self.items[i];
                f(&e.0, &mut e.1)
            };
            if keep {
                i += 1;
            } else {
                let _ = self.take_at(i);
            }
        }
    }
    pub fn raw_entry_mut(&mut self) -> RawEntryBuilderMut<'_, K, V> {
        RawEntryBuilderMut { map: self }
    }
    pub fn entry(&mut self, k: K) -> Entry<'_, K, V> {
        match self.pos(&k) {
            Some(i) => Entry::Occupied(OccupiedEntry { map: self, idx: i }),
            None => Entry::Vacant(VacantEntry { map: self, key: k }),
        }
    }
}

pub struct RawEntryBuilderMut<'a, K, V> {
    map: &'a mut LinkedHashMap<K, V>,
}
impl<'a, K: Eq, V> RawEntryBuilderMut<'a, K, V> {
    pub fn from_key<Q: ?Sized + Eq>(self, k: &Q) -> RawEntryMut<'a, K, V>
    where
        K: Borrow<Q>,
    {
        match self.map.pos(k) {
            Some(i) => RawEntryMut::Occupied(RawOccupiedEntryMut { map: self.map, idx: i }),
            None => RawEntryMut::Vacant(RawVacantEntryMut { map: self.map }),
        }
    }
}
pub enum RawEntryMut<'a, K, V> {
    Occupied(RawOccupiedEntryMut<'a, K, V>),
    Vacant(RawVacantEntryMut<'a, K, V>),
}
pub struct RawOccupiedEntryMut<'a, K, V> {
    map: &'a mut LinkedHashMap<K, V>,
    idx: usize,
}
pub struct RawVacantEntryMut<'a, K, V> {
    map: &'a mut LinkedHashMap<K, V>,
}
impl<'a, K: Eq, V> RawOccupiedEntryMut<'a, K, V> {
    pub fn key(&self) -> &K {
        &self.map.items[self.idx].0
    }
    pub fn get(&self) -> &V {
        &self.map.items[self.idx].1
    }
    pub fn get_mut(&mut self) -> &mut V {
        &mut self.map.items[self.idx].1
    }
    pub fn get_key_value(&self) -> (&K, &V) {
        let e = &self.map.items[self.idx];
        (&e.0, &e.1)
    }
    pub fn into_mut(self) -> &'a mut V {
        &mut self.map.items[self.idx].1
    }
    pub fn into_key_value(self) -> (&'a mut K, &'a mut V) {
        let e = &mut self.map.items[self.idx];
        (&mut e.0, &mut e.1)
    }
    pub fn to_back(&mut self) {
        self.map.rotate_to_back(self.idx);
        self.idx = self.map.items.len() - 1;
    }
    pub fn to_front(&mut self) {
        self.map.rotate_to_front(self.idx);
        self.idx = 0;
    }
    pub fn insert(&mut self, v: V) -> V {
        std::mem::replace(&mut self.map.items[self.idx].1, v)
    }
    pub fn replace_value(&mut self, v: V) -> V {
        std::mem::replace(&mut self.map.items[self.idx].1, v)
    }
    pub fn remove(self) -> V {
        self.map.take_at(self.idx).1
    }
    pub fn remove_entry(self) -> (K, V) {
        self.map.take_at(self.idx)
    }
}
impl<'a, K: Eq, V> RawVacantEntryMut<'a, K, V> {
    pub fn insert(self, k: K, v: V) -> (&'a mut K, &'a mut V) {
        self.map.items.push((k, v));
        let n = self.map.items.len();
        let e = &mut self.map.items[n - 1];
        (&mut e.0, &mut e.1)
    }
}

pub enum Entry<'a, K, V> {
    Occupied(OccupiedEntry<'a, K, V>),
    Vacant(VacantEntry<'a, K, V>),
}
pub struct OccupiedEntry<'a, K, V> {
    map: &'a mut LinkedHashMap<K, V>,
    idx: usize,
}
pub struct VacantEntry<'a, K, V> {
    map: &'a mut LinkedHashMap<K, V>,
    key: K,
}
impl<'a, K: Eq, V> OccupiedEntry<'a, K, V> {
    pub fn key(&self) -> &K {
        &self.map.items[self.idx].0
    }
    pub fn get(&self) -> &V {
        &self.map.items[self.idx].1
    }
    pub fn get_mut(&mut self) -> &mut V {
        &mut self.map.items[self.idx].1
    }
    pub fn into_mut(self) -> &'a mut V {
        &mut self.map.items[self.idx].1
    }
    pub fn to_back(&mut self) {
        self.map.rotate_to_back(self.idx);
        self.idx = self.map.items.len() - 1;
    }
    pub fn to_front(&mut self) {
        self.map.rotate_to_front(self.idx);
        self.idx = 0;
    }
    pub fn insert(&mut self, v: V) -> V {
        std::mem::replace(&mut self.map.items[self.idx].1, v)
    }
    pub fn remove(self) -> V {
        self.map.take_at(self.idx).1
    }
    pub fn remove_entry(self) -> (K, V) {
        self.map.take_at(self.idx)
    }
}
impl<'a, K: Eq, V> VacantEntry<'a, K, V> {
    pub fn key(&self) -> &K {
        &self.key
    }
    pub fn insert(self, v: V) -> &'a mut V {
        self.map.items.push((self.key, v));
        let n = self.map.items.len();
        &mut self.map.items[n - 1].1
    }
}
impl<'a, K: Eq, V> Entry<'a, K, V> {
    pub fn or_insert(self, v: V) -> &'a mut V {
        match self {
            Entry::Occupied(o) => o.into_mut(),
            Entry::Vacant(e) => e.insert(v),
        }
    }
    pub fn or_insert_with<F: FnOnce() -> V>(self, f: F) -> &'a mut V {
        match self {
            Entry::Occupied(o) => o.into_mut(),
            Entry::Vacant(e) => e.insert(f()),
        }
    }
    pub fn and_modify<F: FnOnce(&mut V)>(mut self, f: F) -> Self {
        if let Entry::Occupied(o) = &mut self {
            f(o.get_mut());
        }
        self
    }
}
