//! Native replay driver for C09 — `#[cfg(test)]` child of `crate::query_pool::peers::closest` in an
//! unmodified copy of /repo (real BTreeMap): deterministic event sequences with the harness monitors.
use super::*;
use enr::NodeId;
use std::time::{Duration, Instant};

struct Lcg(u64);
impl Lcg {
    fn next(&mut self) -> u64 {
        self.0 = self.0.wrapping_mul(6364136223846793005).wrapping_add(1442695040888963407);
        self.0 >> 33
    }
}
fn id(b: u8) -> NodeId {
    let mut x = [0u8; 32];
    x[31] = b;
    NodeId::new(&x)
}

#[test]
fn verif_replay_c09_query() {
    let mut bad = 0;
    'outer: for seed in 0..3000u64 {
        let mut r = Lcg(seed * 48271 + 1);
        let parallelism = 1 + (r.next() % 3) as usize;
        let num_results = 1 + (r.next() % 3) as usize;
        let cfg = FindNodeQueryConfig { parallelism, num_results, peer_timeout: Duration::from_secs(10) };
        let target = id((r.next() % 32) as u8);
        let n0 = 1 + (r.next() % 3) as u8;
        let init: Vec<Key<NodeId>> = (0..n0).map(|i| Key::from(id(40 + i))).collect();
        let mut q = FindNodeQuery::with_config(cfg, Key::from(target), init);
        let t0 = Instant::now();
        let mut now = t0;
        let mut contacted: Vec<NodeId> = Vec::new();
        let mut in_flight: Vec<NodeId> = Vec::new();
        let mut answered: Vec<NodeId> = Vec::new();
        let mut finished = false;
        for _step in 0..60 {
            match r.next() % 5 {
                0 | 1 => {
                    if r.next() % 3 == 0 {
                        now += Duration::from_secs(r.next() % 15);
                    }
                    let waiting_before = q.num_waiting;
                    let stalled = matches!(q.progress, QueryProgress::Stalled);
                    match q.next(now) {
                        QueryState::Waiting(Some(p)) => {
                            if finished {
                                bad += 1;
                                println!("VERIF-REPLAY reproduced class=finished-lookup-issues-request seed={}", seed);
                                break 'outer;
                            }
                            if contacted.contains(&p) {
                                bad += 1;
                                println!("VERIF-REPLAY reproduced class=request-sent-to-same-peer-twice seed={}", seed);
                                break 'outer;
                            }
                            let cap = if stalled { num_results } else { parallelism };
                            if waiting_before >= cap {
                                bad += 1;
                                println!("VERIF-REPLAY reproduced class=request-issued-at-capacity seed={} waiting={} cap={}", seed, waiting_before, cap);
                                break 'outer;
                            }
                            contacted.push(p);
                            in_flight.push(p);
                        }
                        QueryState::Finished => finished = true,
                        QueryState::Waiting(None) => {
                            if q.num_waiting == 0 {
                                bad += 1;
                                println!("VERIF-REPLAY reproduced class=lookup-idles-with-nothing-in-flight seed={}", seed);
                                break 'outer;
                            }
                        }
                        QueryState::WaitingAtCapacity => {}
                    }
                }
                2 => {
                    if let Some(p) = contacted.get((r.next() as usize) % contacted.len().max(1)).cloned() {
                        let k = (r.next() % 3) as usize;
                        let ret: Vec<NodeId> = (0..k).map(|_| id((r.next() % 48) as u8 + 20)).collect();
                        let was_in_flight = in_flight.contains(&p);
                        q.on_success(&p, ret);
                        if was_in_flight && !finished {
                            in_flight.retain(|x| *x != p);
                            answered.push(p);
                        }
                    }
                }
                3 => {
                    if let Some(p) = contacted.get((r.next() as usize) % contacted.len().max(1)).cloned() {
                        q.on_failure(&p);
                        in_flight.retain(|x| *x != p);
                    }
                }
                _ => {
                    // an answer from an arbitrary id: unsolicited unless it happens to be a peer in flight
                    let p = id((r.next() % 48) as u8 + 20);
                    let was_in_flight = in_flight.contains(&p);
                    q.on_success(&p, vec![]);
                    if was_in_flight && !finished {
                        in_flight.retain(|x| *x != p);
                        answered.push(p);
                    }
                }
            }
            let waiting = q.closest_peers.values().filter(|p| matches!(p.state, QueryPeerState::Waiting(_))).count();
            if waiting != q.num_waiting {
                bad += 1;
                println!("VERIF-REPLAY reproduced class=num-waiting-out-of-sync seed={} counted={} field={}", seed, waiting, q.num_waiting);
                break 'outer;
            }
        }
        let res = q.into_result();
        if res.len() > num_results || res.iter().any(|p| !answered.contains(p)) {
            bad += 1;
            println!("VERIF-REPLAY reproduced class=result-unsound-or-too-long seed={} len={}", seed, res.len());
            break 'outer;
        }
    }
    println!("VERIF-REPLAY done bad={}", bad);
}
