#!/usr/bin/env python3
"""/verif/check <property> [--tier quick|thorough]  -- see DESIGN.md section 1."""
import argparse, importlib, json, os, sys, time, traceback

sys.path.insert(0, os.path.dirname(os.path.abspath(__file__)))
from vlib import *  # noqa


def run_property(prop, tier, seed):
    t0 = time.time()
    pid = prop.PID
    dst = src = None
    inconclusive = []      # reasons
    violations = []        # reproduced, unlisted
    known_hits = []        # reproduced, listed
    samples = []
    obligations = []       # per-harness records
    assumptions = list(prop.ASSUMPTIONS)
    known = [k for k in load_known_findings().get("known", []) if k.get("property") == pid]
    replay_runs = 0
    extra_cov = {}
    try:
        dst, src = fresh_copy(pid.lower())
        sub = Subst(src)
        prop.prepare(sub, tier)
        specs = prop.specs(tier, seed)
        log("%s tier=%s: %d harnesses, scratch %s" % (pid, tier, len(specs), dst))
        results = run_harnesses(src, specs, os.path.join(dst, "logs"), jobs=int(os.environ.get("VERIF_JOBS", "14")))
        cases = []
        for sp in specs:
            h = sp["harness"]
            kr, pr = results[h]
            short = h.split("::")[-1]
            rec = {"harness": short, "obligation": sp.get("obligation", ""), "verdict": pr["verdict"],
                   "error": pr["error"], "wall_s": round(kr.wall or 0, 1), "bounds": sp.get("bounds", ""),
                   "stats": {k: v for k, v in pr["stats"].items() if k != "stubs"},
                   "stubs": pr["stats"].get("stubs", []),
                   "covers": {c["desc"]: c["status"] for c in pr["covers"]}}
            obligations.append(rec)
            if pr["error"]:
                inconclusive.append("%s: %s" % (short, pr["error"]))
                keep_log(dst, kr, pid)
                continue
            if sp.get("kind") == "twin":
                if pr["verdict"] != "FAILED":
                    inconclusive.append("%s: vacuity twin did not fail" % short)
                rec["discharged"] = pr["verdict"] == "FAILED"
                continue
            if pr["verdict"] == "SUCCESSFUL":
                missing = [c for c in sp.get("covers", []) if rec["covers"].get(c) != "SATISFIED"
                           and rec["covers"].get("cover condition: " + c) != "SATISFIED"]
                if missing:
                    inconclusive.append("%s: reachability witness not satisfied: %s" % (short, missing))
                    rec["discharged"] = False
                else:
                    rec["discharged"] = True
                continue
            if pr["verdict"] == "FAILED":
                rec["discharged"] = False
                real = [f for f in pr["failed"] if "unwinding assertion" not in f["desc"]]
                if pr["unwinding_failed"] and not real:
                    inconclusive.append("%s: unwinding assertion failed (loop bound too small for this source)" % short)
                    keep_log(dst, kr, pid)
                    continue
                case = {"harness": short, "failed": [f["desc"] for f in real][:6], "playback": pr["playback"]}
                try:
                    case["decoded"] = sp["decode"](pr["playback"]) if sp.get("decode") and pr["playback"] else None
                except Exception as e:  # decoding must never turn into a verdict
                    case["decoded"] = None
                    case["decode_error"] = repr(e)
                case["spec"] = sp
                cases.append(case)
                keep_log(dst, kr, pid)
                continue
            inconclusive.append("%s: no verdict" % short)
            keep_log(dst, kr, pid)
        # extra (non-Kani) obligations, e.g. the C08 bit-vector lemma
        if hasattr(prop, "extra_obligations"):
            for rec in prop.extra_obligations(tier, dst):
                obligations.append(rec)
                if rec.get("error"):
                    inconclusive.append("%s: %s" % (rec["harness"], rec["error"]))
                elif not rec.get("discharged"):
                    # a failed lemma about the specification is a bug of the machinery, not of /repo
                    inconclusive.append("%s: lemma not discharged" % rec["harness"])
        # replay counterexamples natively
        if cases:
            log("%d failing harness(es); replaying natively against an unmodified copy" % len(cases))
            rep = prop.replay(cases, tier, dst)
            replay_runs = rep.get("runs", 0)
            for r in rep["results"]:
                samples.append({"counterexample": r["case"], "replay": r["outcome"], "class": r.get("klass")})
                if r["outcome"] == "reproduced":
                    hit = [k for k in known if k.get("key") == r.get("klass")]
                    path = save_replay(pid, r.get("name", r["harness"]), r["case"])
                    if hit:
                        known_hits.append((hit[0], r))
                    else:
                        violations.append((path, r))
                else:
                    inconclusive.append("%s: counterexample did not reproduce natively (%s): harness or model "
                                        "is out of sync with the source" % (r["harness"], r["outcome"]))
        # stub-contract validation: where a harness replaces a function of the repository itself by a stub (signature
        # check, key agreement, AEAD wrappers), the solver's verdict is conditional on the real function meeting the
        # stub's contract.  That contract is exercised natively on every run; a mismatch voids the verdict and is
        # reported with the concrete native run as its replay.
        if getattr(prop, "VALIDATE_STUBS", False) and not cases and not inconclusive:
            log("validating the contracts of stubbed repository functions natively")
            fake = [{"harness": "stub_contract_validation", "failed": ["native validation of stubbed repository functions"], "decoded": None}]
            rep = prop.replay(fake, tier, dst)
            replay_runs += rep.get("runs", 0)
            extra_cov["stub_contract_validation"] = [r["outcome"] for r in rep["results"]]
            for r in rep["results"]:
                if r["outcome"] == "reproduced":
                    samples.append({"stub_contract_violated": r["case"], "class": r.get("klass")})
                    hit = [k for k in known if k.get("key") == r.get("klass")]
                    path = save_replay(pid, "stub_contract_validation", r["case"])
                    if hit:
                        known_hits.append((hit[0], r))
                    else:
                        violations.append((path, r))
                elif r["outcome"] != "not-reproduced":
                    inconclusive.append("stub contract validation: " + r["outcome"])
        if hasattr(prop, "coverage_extra"):
            extra_cov.update(prop.coverage_extra(tier))
    except Inconclusive as e:
        inconclusive.append(str(e))
    except Exception:
        inconclusive.append("internal error: " + traceback.format_exc()[-1500:])
    finally:
        if dst and not os.environ.get("VERIF_KEEP"):
            cleanup(dst)
    # ---------------------------------------------------------------- evidence
    proved = [o for o in obligations if o.get("discharged")]
    for o in obligations[:40]:
        if o.get("discharged") and len(samples) < 12:
            wit = [d for d, s in o.get("covers", {}).items() if s == "SATISFIED"]
            samples.append({"obligation": o["harness"], "what": o.get("obligation", ""), "bounds": o.get("bounds", ""),
                            "verdict": o["verdict"], "reachability_witnesses": wit[:4],
                            "vccs": o["stats"].get("vccs"), "sat_vars": o["stats"].get("sat_vars")})
    nontrivial = len(set(o["harness"] for o in obligations if (o["stats"].get("vccs_remaining") or 0) > 0 or o.get("solver")))
    cov = {
        "evaluations": len(obligations),
        "distinct_nontrivial": nontrivial,
        "rule": "one evaluation = one solver query (a Kani/CBMC harness over symbolic inputs, or an SMT lemma); "
                "non-trivial = CBMC left at least one verification condition for the SAT solver after simplification",
        "samples": samples if samples else [{"note": "no obligation was decided"}],
        "obligations": len(obligations),
        "discharged": len(proved),
        "checker_cmd": "cargo kani -Z stubbing -Z unstable-options --harness <h> --exact --no-memory-safety-checks "
                       "[--cbmc-args --unwindset ...]  (Kani 0.68.0, CBMC 6.11.0, CaDiCaL); unwinding assertions on",
        "trusted_base": ["rustc MIR -> Kani goto translation", "CBMC 6.11 symbolic execution and bit-blasting", "CaDiCaL",
                         "the environment models in /verif/shims (listed under assumptions)"],
        "functions_encoded": prop.FUNCTIONS,
        "bounds": prop.BOUNDS.get(tier, prop.BOUNDS.get("quick")),
        "outside_the_claim": prop.OUTSIDE,
        "substitutions_applied": sub.applied if 'sub' in dir() and sub else [],
        "per_harness": obligations,
        "solver_s_total": round(sum((o["stats"].get("solver_s") or 0) for o in obligations), 2),
        "symex_s_total": round(sum((o["stats"].get("symex_s") or 0) for o in obligations), 2),
        "native_replays": replay_runs,
        "inconclusive": inconclusive,
        "known_findings_hit": [k["key"] for k, _ in known_hits],
        "repo_src_fingerprint": repo_fingerprint(),
        "exhaustive": False,
    }
    cov.update(extra_cov)
    write_evidence(pid, tier, seed, prop.LEVEL, cov, assumptions, time.time() - t0, len(violations))
    for k, r in known_hits:
        print("KNOWN-FINDING: property=%s %s (%s)" % (pid, k.get("what", k["key"]), k["key"]))
    if violations:
        seen_classes = set()
        for path, r in violations:
            if r.get("klass") in seen_classes:
                continue
            seen_classes.add(r.get("klass"))
            print("VIOLATION property=%s replay=%s" % (pid, path))
            log("   class=%s harness=%s detail=%s" % (r.get("klass"), r["harness"], r.get("detail", "")))
        return EXIT_VIOLATION
    if inconclusive:
        for i in inconclusive:
            log("INCONCLUSIVE:", i)
        return EXIT_INCONCLUSIVE
    log("%s: %d/%d obligations discharged in %.0fs" % (pid, len(proved), len(obligations), time.time() - t0))
    return EXIT_OK


def keep_log(dst, kr, pid):
    d = os.path.join(VERIF, "logs", pid)
    os.makedirs(d, exist_ok=True)
    try:
        shutil.copy(kr.logfile, os.path.join(d, os.path.basename(kr.logfile)))
    except OSError:
        pass


def main():
    ap = argparse.ArgumentParser()
    ap.add_argument("prop")
    ap.add_argument("--tier", default=os.environ.get("VERIF_TIER", "quick"))
    ap.add_argument("--replay", default=None, help="re-run the native replay driver on a saved counterexample")
    a = ap.parse_args()
    tier = a.tier if a.tier in ("quick", "thorough") else "quick"
    try:
        seed = int(os.environ.get("VERIF_SEED", "0"))
    except ValueError:
        seed = 0
    mod = importlib.import_module("props." + a.prop.lower())
    if a.replay:
        sys.exit(mod.replay_file(a.replay))
    sys.exit(run_property(mod, tier, seed))


if __name__ == "__main__":
    main()
