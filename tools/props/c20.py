"""C20  Every TALK request is answered exactly once (the request object: TalkRequest::respond and Drop)."""
from vlib import *

PID = "C20"
LEVEL = "model_checking"
MOD = "service::verif_c20::"
INJ = [("src/service.rs", "c20_replay.rs", "verif_replay_c20")]

FUNCTIONS = ["service::TalkRequest::{respond, id, node_id, protocol, body}", "impl Drop for service::TalkRequest"]
BOUNDS = {"quick": "one request object with every 2-byte request id, node id, IPv4 source address, 3-byte payload; the handler channel alive or gone; loops unwound 2 "
                   "(no loop of the code under test iterates; byte compares 34)"}
BOUNDS["thorough"] = BOUNDS["quick"]
OUTSIDE = ["how the request object is built (Service::handle_rpc_request: which node address and request id it is given) and how the response travels on "
           "(Handler::send_response): async Service/Handler code that Kani cannot compile - seeded change C20-A lives there",
           "concurrently delivered requests: each request object owns its sender, nothing is shared between them except the queue",
           "tokio's channel itself (S-chan)"]
ASSUMPTIONS = [
    "S-chan: tokio::sync::{mpsc, oneshot} replaced crate-wide by a two-slot queue model with the same surface: in-order delivery, send fails iff the receiver is gone",
    "S-log, S-lock; pointer-validity checks off, panics/overflow/unwinding assertions on; the popped message is inspected without dropping it",
]
H = [("c20_respond_sends_exactly_one", "respond(): Ok, exactly one TALKRESP queued, same request id, same node address, the application's payload; the drop that follows sends nothing", []),
     ("c20_drop_sends_exactly_one_empty", "dropping an unanswered request queues exactly one TALKRESP with an empty payload, same id and address", []),
     ("c20_after_shutdown_is_harmless", "with the handler gone respond() returns ChannelClosed and dropping a request does not panic", []),
     ("c20_accessors", "id / node_id / protocol / body return what the request was built with", [])]


def prepare(sub, tier):
    apply_common_substitutions(sub)
    for rel in ("src/handler/mod.rs", "src/service.rs", "src/discv5.rs"):
        sub.regex(rel, r"^use tokio::sync::\{mpsc, oneshot\};", "use crate::verif_shims::chan::{mpsc, oneshot};", "S-chan")
    sub.regex("src/service/query_info.rs", r"^use tokio::sync::oneshot;", "use crate::verif_shims::chan::oneshot;", "S-chan")
    inject_harness(sub, "src/service.rs", "c20_talk.rs", "verif_c20")


def specs(tier, seed):
    S = [dict(harness=MOD + n, obligation=o, bounds="see bounds", timeout=2400, mem_gb=14, covers=c, unwindset=["memcmp.0:34"]) for n, o, c in H]
    S.append(dict(harness=MOD + "c20_twin_must_fail", obligation="vacuity twin", bounds="-", timeout=2400, mem_gb=14, kind="twin", unwindset=["memcmp.0:34"]))
    return S


def replay(cases, tier, dst):
    return replay_cases(cases, tier, dst, INJ, "verif_replay_c20", once=True)


def replay_file(path):
    return replay_file_generic(path, INJ, "verif_replay_c20")
