//! C17 harnesses — child module of `crate::service::ip_vote` in the scratch copy.
//! std `HashMap` / `FnvHashMap` are replaced by the association-list model, `Instant::now` by a
//! harness-controlled clock.  The vote table is built directly: N votes (concrete N per harness) from
//! distinct voters, with symbolic addresses, symbolic expiry times and therefore, because the list
//! order is the iteration order, *every* iteration order of every vote multiset of that size.
#![allow(dead_code, unused_imports, static_mut_refs)]
use super::*;
use std::net::{Ipv4Addr, SocketAddrV4};
use std::time::{Duration, Instant};

static mut NOW_S: u64 = 0;
static mut NOW_N: u32 = 0;
fn instant(s: u64, n: u32) -> Instant {
    unsafe { std::mem::zeroed::<Instant>() + Duration::new(s, n) }
}
fn stub_now() -> Instant {
    unsafe { instant(NOW_S, NOW_N) }
}
const SEC_BOUND: u64 = 1 << 40;
fn any_time() -> (u64, u32) {
    let s: u64 = kani::any();
    let n: u32 = kani::any();
    kani::assume(s < SEC_BOUND && n < 1_000_000_000);
    (s, n)
}
fn lt(a: (u64, u32), b: (u64, u32)) -> bool {
    a.0 < b.0 || (a.0 == b.0 && a.1 < b.1)
}

/// voters: ids differ in the last byte only (32-byte equality is still executed by the code)
fn voter(i: u8) -> NodeId {
    let mut b = [0u8; 32];
    b[31] = i + 1;
    NodeId::new(&b)
}

/// addresses: a symbolic choice among three symbolic sockets gives every equality pattern
fn any_socket(pool: &[SocketAddrV4; 3]) -> (u8, SocketAddrV4) {
    let c: u8 = kani::any();
    kani::assume(c < 3);
    (c, pick(pool, c))
}
/// no symbolic index into an array of structs (tool defect, DESIGN.md appendix B)
fn pick(pool: &[SocketAddrV4; 3], c: u8) -> SocketAddrV4 {
    if c == 0 {
        pool[0]
    } else if c == 1 {
        pool[1]
    } else {
        pool[2]
    }
}

/// round(0.7 * m): the clear-majority threshold a rival must stay below (30 % lead)
fn threshold(m: usize) -> usize {
    match m {
        0 => 0,
        1 => 1,
        2 => 1,
        3 => 2,
        4 => 3,
        5 => 4,
        6 => 4,
        7 => 5,
        _ => unreachable!(),
    }
}

const MAXN: usize = 6;

struct Votes {
    n: usize,
    choice: [u8; MAXN],
    expiry: [(u64, u32); MAXN],
    pool: [SocketAddrV4; 3],
    now: (u64, u32),
}

fn build(n: usize, min: usize) -> (IpVote, Votes) {
    let dur_s: u64 = kani::any();
    kani::assume(dur_s < SEC_BOUND);
    let mut iv = IpVote::new(min, Duration::new(dur_s, 0));
    let p0 = SocketAddrV4::new(Ipv4Addr::from(kani::any::<[u8; 4]>()), kani::any());
    let p1 = SocketAddrV4::new(Ipv4Addr::from(kani::any::<[u8; 4]>()), kani::any());
    let p2 = SocketAddrV4::new(Ipv4Addr::from(kani::any::<[u8; 4]>()), kani::any());
    kani::assume(p0 != p1 && p0 != p2 && p1 != p2);
    let pool = [p0, p1, p2];
    let now = any_time();
    let mut v = Votes { n, choice: [0; MAXN], expiry: [(0, 0); MAXN], pool, now };
    // arbitrary order of the voters in the table = arbitrary iteration order
    let mut i = 0;
    while i < n {
        let (c, sock) = any_socket(&pool);
        let e = any_time();
        v.choice[i] = c;
        v.expiry[i] = e;
        iv.ipv4_votes.items.push((voter(i as u8), (sock, instant(e.0, e.1))));
        i += 1;
    }
    unsafe {
        NOW_S = now.0;
        NOW_N = now.1;
    }
    (iv, v)
}

impl Votes {
    fn live(&self, i: usize) -> bool {
        lt(self.now, self.expiry[i])
    }
    fn count(&self, c: u8) -> usize {
        let mut k = 0;
        let mut i = 0;
        while i < self.n {
            if self.live(i) && self.choice[i] == c {
                k += 1;
            }
            i += 1;
        }
        k
    }
    /// the address that has at least `min` unexpired votes and leads every rival by the margin
    fn expected(&self, min: usize) -> Option<SocketAddrV4> {
        let c = [self.count(0), self.count(1), self.count(2)];
        let mut a = 0;
        while a < 3 {
            let (r1, r2) = ((a + 1) % 3, (a + 2) % 3);
            if c[a] >= min && c[r1] < threshold(c[a]) && c[r2] < threshold(c[a]) {
                return Some(pick(&self.pool, a as u8));
            }
            a += 1;
        }
        None
    }
}

fn majority_step(n: usize) {
    let min: usize = kani::any();
    kani::assume(min >= 2 && min <= 4);
    let (mut iv, v) = build(n, min);
    let want = v.expected(min);
    let (got4, got6) = iv.majority();
    kani::cover!(want.is_some(), "a clear majority exists");
    kani::cover!(want.is_none() && v.count(0) >= min, "threshold reached but a rival is within the margin");
    assert!(got6.is_none(), "IPv6 majority without IPv6 votes");
    match (got4, want) {
        (Some(g), Some(w)) => assert!(g == w, "majority returned the wrong address"),
        (Some(_), None) => assert!(false, "address selected without the minimum number of unexpired votes or without a clear lead"),
        (None, Some(_)) => assert!(false, "clear majority not reported"),
        (None, None) => {}
    }
    // fewer unexpired votes in total than the minimum can never select anything
    let live_total = v.count(0) + v.count(1) + v.count(2);
    if live_total < min {
        assert!(got4.is_none());
    }
    std::mem::forget(iv);
}

/// insert: one vote per voter, the latest one counts (address and lifetime both replaced)
fn insert_step(n: usize) {
    let (mut iv, v) = build(n, 2);
    let who: u8 = kani::any();
    kani::assume((who as usize) <= n); // an existing voter or a new one
    let (_c, sock) = any_socket(&v.pool);
    iv.insert(voter(who), sock);
    let items = &iv.ipv4_votes.items;
    let mut seen = 0;
    let mut i = 0;
    while i < items.len() {
        if items[i].0 == voter(who) {
            seen += 1;
            assert!(items[i].1 .0 == sock, "a voter's new vote did not replace its address");
            assert!(items[i].1 .1 == stub_now() + iv.vote_duration, "a new vote does not get a fresh lifetime");
        } else {
            // all other votes untouched
            let mut j = 0;
            let mut found = false;
            while j < n {
                if items[i].0 == voter(j as u8) {
                    found = true;
                    assert!(items[i].1 .0 == pick(&v.pool, v.choice[j]), "address of another voter's vote changed");
                    assert!(items[i].1 .1 == instant(v.expiry[j].0, v.expiry[j].1), "lifetime of another voter's vote changed");
                }
                j += 1;
            }
            assert!(found, "vote of an unknown voter appeared");
        }
        i += 1;
    }
    assert!(seen == 1, "exactly one vote per voter");
    kani::cover!((who as usize) < n, "voter changes its vote");
    assert!(items.len() == if (who as usize) < n { n } else { n + 1 });
    assert!(iv.ipv6_votes.items.is_empty());
    std::mem::forget(iv);
}

/// has_minimum_threshold counts unexpired votes only
fn threshold_step(n: usize) {
    let min: usize = kani::any();
    kani::assume(min >= 2 && min <= 4);
    let (mut iv, v) = build(n, min);
    let (t4, t6) = iv.has_minimum_threshold();
    let live_total = v.count(0) + v.count(1) + v.count(2);
    assert!(t4 == (live_total >= min), "minimum threshold must count unexpired votes only");
    assert!(!t6);
    std::mem::forget(iv);
}

macro_rules! harnesses {
    ($($name:ident => $body:expr;)*) => {$(
        #[kani::proof]
        #[kani::unwind(10)]
        #[kani::stub(std::time::Instant::now, stub_now)]
        fn $name() { $body }
    )*};
}
harnesses! {
    c17_majority_n2 => majority_step(2);
    c17_majority_n3 => majority_step(3);
    c17_majority_n4 => majority_step(4);
    c17_majority_n5 => majority_step(5);
    c17_majority_n6 => majority_step(6);
    c17_insert_n1 => insert_step(1);
    c17_insert_n3 => insert_step(3);
    c17_threshold_n3 => threshold_step(3);
    c17_twin_must_fail => { majority_step(3); assert!(false, "twin"); };
}

