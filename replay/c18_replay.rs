//! Native replay driver for C18 (limiter) — `#[cfg(test)]` child of
//! `crate::socket::filter::rate_limiter` in an unmodified copy of /repo (real FnvHashMap).
use super::*;
use std::time::Duration;

struct Lcg(u64);
impl Lcg {
    fn next(&mut self) -> u64 {
        self.0 = self.0.wrapping_mul(6364136223846793005).wrapping_add(1442695040888963407);
        self.0 >> 33
    }
}

fn lim(n: u64, period_ns: u64) -> Limiter<u8> {
    Limiter::from_quota(Quota { replenish_all_every: Duration::from_nanos(period_ns), max_tokens: n }).ok().unwrap()
}

#[test]
fn verif_replay_c18_limiter() {
    let mut bad = 0;
    // burst + rate x window, "conforming traffic is not refused", on many arrival patterns
    'outer: for n in 1..=4u64 {
        for period in [1_000u64, 4_000, 1_000_000] {
            let t = period / n;
            let tau = period;
            for seed in 0..200u64 {
                let mut r = Lcg(seed * 31 + n * 7 + period);
                let mut l = lim(n, period);
                let mut now = 0u64;
                let mut acc: Vec<(u64, u8)> = Vec::new(); // accepted (time, key)
                for _ in 0..24 {
                    // mix of bursts (gap 0), exact-rate gaps and long idle periods
                    now += match r.next() % 5 {
                        0 | 1 => 0,
                        2 => t,
                        3 => r.next() % (2 * t + 1),
                        _ => 20 * tau + r.next() % tau,
                    };
                    let key = (r.next() % 2) as u8;
                    let ok = l.allows(Duration::from_nanos(now), &key, 1).is_ok();
                    let mine: Vec<u64> = acc.iter().filter(|(_, k)| *k == key).map(|(t, _)| *t).collect();
                    if ok {
                        // window check against every earlier accepted arrival of that key
                        for (i, ti) in mine.iter().enumerate() {
                            let m = (mine.len() - i + 1) as u64;
                            if m * t > (now - ti) + tau {
                                bad += 1;
                                println!("VERIF-REPLAY reproduced class=more-let-through-than-burst-plus-rate-x-window n={} period={} m={} window={}", n, period, m, now - ti);
                                break 'outer;
                            }
                        }
                        acc.push((now, key));
                    } else {
                        let justified = mine.iter().enumerate().any(|(i, ti)| ((mine.len() - i + 1) as u64) * t > (now - ti) + tau);
                        if !justified {
                            bad += 1;
                            println!("VERIF-REPLAY reproduced class=arrival-within-quota-refused n={} period={} now={}", n, period, now);
                            break 'outer;
                        }
                    }
                }
            }
        }
    }
    // pruning changes no decision
    'p: for n in 1..=3u64 {
        for seed in 0..200u64 {
            let period = 3_000u64;
            let (t, tau) = (period / n, period);
            let mut r = Lcg(seed * 131 + n);
            let (mut a, mut b) = (lim(n, period), lim(n, period));
            let mut now = 0u64;
            for _ in 0..24 {
                now += match r.next() % 4 {
                    0 => 0,
                    1 => t,
                    2 => r.next() % (2 * t + 1),
                    _ => 3 * tau,
                };
                if r.next() % 2 == 0 {
                    b.prune(Duration::from_nanos(now));
                }
                let key = (r.next() % 2) as u8;
                let ra = a.allows(Duration::from_nanos(now), &key, 1).is_ok();
                let rb = b.allows(Duration::from_nanos(now), &key, 1).is_ok();
                if ra != rb {
                    bad += 1;
                    println!("VERIF-REPLAY reproduced class=pruning-changed-a-decision n={} now={}", n, now);
                    break 'p;
                }
            }
        }
    }
    // from_quota
    for (n, p) in [(1u64, 1000u64), (3, 1000), (10, 999), (7, 1)] {
        let l = lim(n, p);
        if l.tau != p || l.t != p / n {
            bad += 1;
            println!("VERIF-REPLAY reproduced class=from-quota-relation n={} period={}", n, p);
        }
    }
    if Limiter::<u8>::from_quota(Quota { replenish_all_every: Duration::from_nanos(5), max_tokens: 0 }).is_ok()
        || Limiter::<u8>::from_quota(Quota { replenish_all_every: Duration::from_nanos(0), max_tokens: 2 }).is_ok()
    {
        bad += 1;
        println!("VERIF-REPLAY reproduced class=zero-quota-accepted");
    }
    println!("VERIF-REPLAY done bad={}", bad);
}
