//! S-chan: `tokio::sync::{mpsc, oneshot}` modelled as single-threaded queues with the same surface
//! (Kani 0.68 ICEs on anything that reaches tokio's channels).  Only the synchronous part is ever
//! executed by a harness (`UnboundedSender::send`, dropping endpoints, inspecting the queue); the
//! async methods exist so that the crate still type-checks.
//!
//! Semantics kept: messages are delivered in order; `send` fails iff the receiver is gone (and hands
//! the message back); the receiver sees `None` once every sender is gone and the queue is empty.
#![allow(dead_code)]

pub mod mpsc {
    use std::cell::UnsafeCell;
    use std::sync::Arc;

    /// Two-slot queue with concrete slot indices only (a larger list of `HandlerIn` values, which embed
    /// node records, made CBMC explore the records' drop glue for every slot).
    pub struct Queue<T> {
        a: Option<T>,
        b: Option<T>,
    }
    impl<T> Queue<T> {
        fn new() -> Self {
            Queue { a: None, b: None }
        }
        fn len(&self) -> usize {
            (self.a.is_some() as usize) + (self.b.is_some() as usize)
        }
        fn is_empty(&self) -> bool {
            self.a.is_none()
        }
        fn push(&mut self, t: T) {
            if self.a.is_none() {
                self.a = Some(t);
            } else if self.b.is_none() {
                self.b = Some(t);
            } else {
                panic!("channel model capacity (2) exceeded: outside the bound of this harness");
            }
        }
        fn pop(&mut self) -> Option<T> {
            let r = self.a.take();
            self.a = self.b.take();
            r
        }
    }
    /// The liveness flag of the receiving side lives in a global table (indexed by a per-channel number) rather
    /// than behind the `Arc`: CBMC propagates constants through globals but not through heap cells, and with a
    /// constant "receiver alive" the error branch of `send` (which drops the message, i.e. runs the drop glue of
    /// `HandlerIn` with its embedded node records) is pruned where it is infeasible.
    pub const MAX_CHANNELS: usize = 8;
    pub static mut RX_ALIVE: [bool; MAX_CHANNELS] = [true; MAX_CHANNELS];
    pub static mut NEXT_CHANNEL: usize = 0;
    pub struct RxFlag(usize);
    impl RxFlag {
        pub fn get(&self) -> *mut bool {
            unsafe { std::ptr::addr_of_mut!(RX_ALIVE[self.0]) }
        }
    }
    pub struct Chan<T> {
        pub queue: UnsafeCell<Queue<T>>,
        pub rx_alive: RxFlag,
        pub senders: UnsafeCell<usize>,
    }
    unsafe impl<T: Send> Send for Chan<T> {}
    unsafe impl<T: Send> Sync for Chan<T> {}
    impl<T> Chan<T> {
        fn new() -> Arc<Self> {
            let id = unsafe {
                let i = NEXT_CHANNEL;
                assert!(i < MAX_CHANNELS, "channel model: more than 8 channels");
                NEXT_CHANNEL += 1;
                RX_ALIVE[i] = true;
                i
            };
            Arc::new(Chan { queue: UnsafeCell::new(Queue::new()), rx_alive: RxFlag(id), senders: UnsafeCell::new(1) })
        }
        /// number of queued messages (harness observation)
        pub fn len(&self) -> usize {
            unsafe { (*self.queue.get()).len() }
        }
        pub fn pop(&self) -> Option<T> {
            unsafe { (*self.queue.get()).pop() }
        }
        fn push(&self, t: T) -> Result<(), T> {
            unsafe {
                if !*self.rx_alive.get() {
                    return Err(t);
                }
                (*self.queue.get()).push(t);
                Ok(())
            }
        }
    }

    pub mod error {
        #[derive(PartialEq, Eq, Clone, Copy)]
        pub struct SendError<T>(pub T);
        impl<T> std::fmt::Debug for SendError<T> {
            fn fmt(&self, f: &mut std::fmt::Formatter<'_>) -> std::fmt::Result {
                f.write_str("SendError(..)")
            }
        }
        impl<T> std::fmt::Display for SendError<T> {
            fn fmt(&self, f: &mut std::fmt::Formatter<'_>) -> std::fmt::Result {
                f.write_str("channel closed")
            }
        }
        impl<T> std::error::Error for SendError<T> {}
        #[derive(PartialEq, Eq, Clone, Copy)]
        pub enum TrySendError<T> {
            Full(T),
            Closed(T),
        }
        impl<T> std::fmt::Debug for TrySendError<T> {
            fn fmt(&self, f: &mut std::fmt::Formatter<'_>) -> std::fmt::Result {
                f.write_str("TrySendError(..)")
            }
        }
        impl<T> std::fmt::Display for TrySendError<T> {
            fn fmt(&self, f: &mut std::fmt::Formatter<'_>) -> std::fmt::Result {
                f.write_str("channel full or closed")
            }
        }
        impl<T> std::error::Error for TrySendError<T> {}
        #[derive(Debug, PartialEq, Eq, Clone, Copy)]
        pub enum TryRecvError {
            Empty,
            Disconnected,
        }
    }
    use error::{SendError, TryRecvError, TrySendError};

    macro_rules! sender {
        ($name:ident) => {
            pub struct $name<T> {
                pub chan: Arc<Chan<T>>,
            }
            impl<T> Clone for $name<T> {
                fn clone(&self) -> Self {
                    unsafe {
                        *self.chan.senders.get() += 1;
                    }
                    $name { chan: self.chan.clone() }
                }
            }
            impl<T> Drop for $name<T> {
                fn drop(&mut self) {
                    unsafe {
                        *self.chan.senders.get() -= 1;
                    }
                }
            }
            impl<T> std::fmt::Debug for $name<T> {
                fn fmt(&self, f: &mut std::fmt::Formatter<'_>) -> std::fmt::Result {
                    f.write_str(stringify!($name))
                }
            }
            impl<T> $name<T> {
                pub fn is_closed(&self) -> bool {
                    unsafe { !*self.chan.rx_alive.get() }
                }
                pub async fn closed(&self) {
                    if !self.is_closed() {
                        std::future::pending::<()>().await
                    }
                }
                pub fn same_channel(&self, other: &Self) -> bool {
                    Arc::ptr_eq(&self.chan, &other.chan)
                }
            }
        };
    }
    sender!(Sender);
    sender!(UnboundedSender);
    impl<T> Sender<T> {
        pub async fn send(&self, t: T) -> Result<(), SendError<T>> {
            self.chan.push(t).map_err(SendError)
        }
        pub fn try_send(&self, t: T) -> Result<(), TrySendError<T>> {
            self.chan.push(t).map_err(TrySendError::Closed)
        }
        pub fn blocking_send(&self, t: T) -> Result<(), SendError<T>> {
            self.chan.push(t).map_err(SendError)
        }
    }
    impl<T> UnboundedSender<T> {
        pub fn send(&self, t: T) -> Result<(), SendError<T>> {
            self.chan.push(t).map_err(SendError)
        }
    }

    macro_rules! receiver {
        ($name:ident) => {
            pub struct $name<T> {
                pub chan: Arc<Chan<T>>,
            }
            impl<T> Drop for $name<T> {
                fn drop(&mut self) {
                    unsafe {
                        *self.chan.rx_alive.get() = false;
                    }
                }
            }
            impl<T> std::fmt::Debug for $name<T> {
                fn fmt(&self, f: &mut std::fmt::Formatter<'_>) -> std::fmt::Result {
                    f.write_str(stringify!($name))
                }
            }
            impl<T> $name<T> {
                pub async fn recv(&mut self) -> Option<T> {
                    match self.chan.pop() {
                        Some(t) => Some(t),
                        None => {
                            if unsafe { *self.chan.senders.get() } == 0 {
                                None
                            } else {
                                std::future::pending::<Option<T>>().await
                            }
                        }
                    }
                }
                pub fn try_recv(&mut self) -> Result<T, TryRecvError> {
                    match self.chan.pop() {
                        Some(t) => Ok(t),
                        None => {
                            if unsafe { *self.chan.senders.get() } == 0 {
                                Err(TryRecvError::Disconnected)
                            } else {
                                Err(TryRecvError::Empty)
                            }
                        }
                    }
                }
                pub fn close(&mut self) {
                    unsafe {
                        *self.chan.rx_alive.get() = false;
                    }
                }
            }
        };
    }
    receiver!(Receiver);
    receiver!(UnboundedReceiver);

    pub fn channel<T>(_n: usize) -> (Sender<T>, Receiver<T>) {
        let c = Chan::new();
        (Sender { chan: c.clone() }, Receiver { chan: c })
    }
    pub fn unbounded_channel<T>() -> (UnboundedSender<T>, UnboundedReceiver<T>) {
        let c = Chan::new();
        (UnboundedSender { chan: c.clone() }, UnboundedReceiver { chan: c })
    }
}

pub mod oneshot {
    use std::cell::UnsafeCell;
    use std::future::Future;
    use std::pin::Pin;
    use std::sync::Arc;
    use std::task::{Context, Poll};

    pub struct Slot<T> {
        pub value: UnsafeCell<Option<T>>,
        pub tx_alive: UnsafeCell<bool>,
        pub rx_alive: UnsafeCell<bool>,
    }
    unsafe impl<T: Send> Send for Slot<T> {}
    unsafe impl<T: Send> Sync for Slot<T> {}

    pub mod error {
        #[derive(Debug, PartialEq, Eq, Clone, Copy)]
        pub struct RecvError(pub ());
        impl std::fmt::Display for RecvError {
            fn fmt(&self, f: &mut std::fmt::Formatter<'_>) -> std::fmt::Result {
                f.write_str("channel closed")
            }
        }
        impl std::error::Error for RecvError {}
        #[derive(Debug, PartialEq, Eq, Clone, Copy)]
        pub enum TryRecvError {
            Empty,
            Closed,
        }
    }

    pub struct Sender<T> {
        pub slot: Arc<Slot<T>>,
    }
    pub struct Receiver<T> {
        pub slot: Arc<Slot<T>>,
    }
    impl<T> std::fmt::Debug for Sender<T> {
        fn fmt(&self, f: &mut std::fmt::Formatter<'_>) -> std::fmt::Result {
            f.write_str("oneshot::Sender")
        }
    }
    impl<T> std::fmt::Debug for Receiver<T> {
        fn fmt(&self, f: &mut std::fmt::Formatter<'_>) -> std::fmt::Result {
            f.write_str("oneshot::Receiver")
        }
    }
    pub fn channel<T>() -> (Sender<T>, Receiver<T>) {
        let s = Arc::new(Slot { value: UnsafeCell::new(None), tx_alive: UnsafeCell::new(true), rx_alive: UnsafeCell::new(true) });
        (Sender { slot: s.clone() }, Receiver { slot: s })
    }
    impl<T> Sender<T> {
        pub fn send(self, t: T) -> Result<(), T> {
            unsafe {
                if !*self.slot.rx_alive.get() {
                    return Err(t);
                }
                *self.slot.value.get() = Some(t);
            }
            Ok(())
        }
        pub fn is_closed(&self) -> bool {
            unsafe { !*self.slot.rx_alive.get() }
        }
    }
    impl<T> Drop for Sender<T> {
        fn drop(&mut self) {
            unsafe {
                *self.slot.tx_alive.get() = false;
            }
        }
    }
    impl<T> Drop for Receiver<T> {
        fn drop(&mut self) {
            unsafe {
                *self.slot.rx_alive.get() = false;
            }
        }
    }
    impl<T> Receiver<T> {
        pub fn try_recv(&mut self) -> Result<T, error::TryRecvError> {
            unsafe {
                match (*self.slot.value.get()).take() {
                    Some(v) => Ok(v),
                    None => {
                        if *self.slot.tx_alive.get() {
                            Err(error::TryRecvError::Empty)
                        } else {
                            Err(error::TryRecvError::Closed)
                        }
                    }
                }
            }
        }
        pub fn close(&mut self) {
            unsafe {
                *self.slot.rx_alive.get() = false;
            }
        }
    }
    impl<T> Future for Receiver<T> {
        type Output = Result<T, error::RecvError>;
        fn poll(self: Pin<&mut Self>, _cx: &mut Context<'_>) -> Poll<Self::Output> {
            unsafe {
                match (*self.slot.value.get()).take() {
                    Some(v) => Poll::Ready(Ok(v)),
                    None => {
                        if *self.slot.tx_alive.get() {
                            Poll::Pending
                        } else {
                            Poll::Ready(Err(error::RecvError(())))
                        }
                    }
                }
            }
        }
    }
}
