//! Native replay driver for C05 — `#[cfg(test)]` child of `crate::packet` in an unmodified copy of
//! /repo: real AES-128-CTR masking, checked against an independent AES-CTR built on the `aes` block
//! cipher; strictness of `PacketKind::decode` and of the length guards on concrete inputs.
use super::*;
use aes::cipher::{BlockEncrypt, KeyInit};

fn ctr_keystream(key: &[u8], iv: &[u8; 16], n: usize) -> Vec<u8> {
    let c = aes::Aes128::new(GenericArray::from_slice(key));
    let mut ctr = u128::from_be_bytes(*iv);
    let mut out = Vec::new();
    while out.len() < n {
        let mut b = GenericArray::clone_from_slice(&ctr.to_be_bytes());
        c.encrypt_block(&mut b);
        out.extend_from_slice(&b);
        // 64-bit big-endian counter in the low half
        let lo = (ctr as u64).wrapping_add(1);
        ctr = (ctr >> 64 << 64) | lo as u128;
    }
    out.truncate(n);
    out
}

#[test]
fn verif_replay_c05_codec() {
    let mut bad = 0;
    let dst = NodeId::new(&[0x5a; 32]);
    let src = NodeId::new(&[0x11; 32]);
    let pi = ProtocolIdentity::default();
    let ivs: [u128; 4] = [0, 11, 0x0123456789abcdef_fedcba9876543210, u128::MAX - 1];
    for iv in ivs {
        let packets = vec![
            Packet { iv, header: PacketHeader { message_nonce: [7; 12], protocol_identity: pi, kind: PacketKind::Message { src_id: src } }, message: vec![1, 2, 3, 4, 5] },
            Packet { iv, header: PacketHeader { message_nonce: [8; 12], protocol_identity: pi, kind: PacketKind::WhoAreYou { id_nonce: [9; 16], enr_seq: 77 } }, message: vec![] },
            Packet { iv, header: PacketHeader { message_nonce: [6; 12], protocol_identity: pi, kind: PacketKind::Handshake { src_id: src, id_nonce_sig: vec![3; 64], ephem_pubkey: vec![4; 33], enr_record: None } }, message: vec![9; 20] },
        ];
        for p in packets {
            let header = p.header.encode();
            let aad = p.authenticated_data();
            let body = p.message.clone();
            let wire = p.clone().encode(&dst);
            let ks = ctr_keystream(&dst.raw()[..16], &iv.to_be_bytes(), header.len());
            let mut want = iv.to_be_bytes().to_vec();
            want.extend(header.iter().zip(ks.iter()).map(|(a, b)| a ^ b));
            want.extend_from_slice(&body);
            if wire != want {
                bad += 1;
                println!("VERIF-REPLAY reproduced class=datagram-layout-differs-from-iv-maskedheader-body iv={:x}", iv);
            }
            let mut a2 = iv.to_be_bytes().to_vec();
            a2.extend_from_slice(&header);
            if aad != a2 {
                bad += 1;
                println!("VERIF-REPLAY reproduced class=authenticated-data-is-not-iv-header");
            }
            match Packet::decode(&dst, pi, &wire) {
                Ok((q, a)) if q == p && a == aad => {}
                _ => {
                    bad += 1;
                    println!("VERIF-REPLAY reproduced class=decode-of-encode-differs iv={:x}", iv);
                }
            }
            let flag: u8 = (&p.header.kind).into();
            match PacketKind::decode(flag, &p.header.kind.encode()) {
                Ok(k) if k == p.header.kind => {}
                _ => {
                    bad += 1;
                    println!("VERIF-REPLAY reproduced class=kind-decode-of-encode-differs flag={}", flag);
                }
            }
        }
    }
    // strictness of the kind decoder
    let cases: Vec<(u8, usize, bool)> = vec![(0, 32, true), (0, 31, false), (0, 33, false), (1, 24, true), (1, 23, false), (1, 25, false), (2, 33, false), (3, 32, false), (9, 24, false)];
    for (kind, n, ok) in cases {
        if PacketKind::decode(kind, &vec![0u8; n]).is_ok() != ok {
            bad += 1;
            println!("VERIF-REPLAY reproduced class=kind-decoder-strictness kind={} len={}", kind, n);
        }
    }
    for (s, k, n, ok) in [(0u8, 0u8, 34usize, true), (1, 0, 34, false), (3, 2, 39, true), (3, 3, 39, false), (255, 255, 40, false)] {
        let mut ad = vec![0u8; n];
        ad[32] = s;
        ad[33] = k;
        if PacketKind::decode(2, &ad).is_ok() != ok {
            bad += 1;
            println!("VERIF-REPLAY reproduced class=handshake-size-check sig={} key={} len={}", s, k, n);
        }
    }
    for len in [0usize, 1, 62, 1281, 1400] {
        let r = std::panic::catch_unwind(|| Packet::decode(&NodeId::new(&[1; 32]), ProtocolIdentity::default(), &vec![0u8; len]).is_ok());
        if !matches!(r, Ok(false)) {
            bad += 1;
            println!("VERIF-REPLAY reproduced class=length-guard len={}", len);
        }
    }
    println!("VERIF-REPLAY done bad={}", bad);
}
