//! Native replay driver for C16 — `#[cfg(test)]` child of `crate::kbucket::bucket` in an unmodified
//! copy of /repo: the real `IpTableFilter` / `IpBucketFilter`, real signed ENRs, K = 16, limits 10 / 2.
use super::*;
use crate::kbucket::filter::{IpBucketFilter, IpTableFilter};
use crate::kbucket::{InsertResult as TIR, KBucketsTable};
use crate::Enr;
use enr::{CombinedKey, NodeId};
use std::net::Ipv4Addr;
use std::time::{Duration, Instant};

struct Lcg(u64);
impl Lcg {
    fn next(&mut self) -> u64 {
        self.0 = self.0.wrapping_mul(6364136223846793005).wrapping_add(1442695040888963407);
        self.0 >> 33
    }
}
type T = KBucketsTable<NodeId, Enr>;
fn table() -> T {
    KBucketsTable::new(Key::from(NodeId::new(&[0u8; 32])), Duration::from_secs(3600), MAX_NODES_PER_BUCKET, Some(Box::new(IpTableFilter)), Some(Box::new(IpBucketFilter)))
}
/// key in bucket `bucket` (0..=255), distinguished by `n`
fn key_in(bucket: usize, n: u8) -> Key<NodeId> {
    let mut b = [0u8; 32];
    let byte = 31 - bucket / 8;
    b[byte] = 1 << (bucket % 8);
    if byte < 31 {
        b[31] = n;
    } else {
        b[byte] |= n & ((1 << (bucket % 8)) - 1);
    }
    Key::from(NodeId::new(&b))
}
fn rec(k: &CombinedKey, subnet: Option<u8>, host: u8, seq: u64) -> Enr {
    let mut b = Enr::builder();
    if let Some(s) = subnet {
        b.ip4(Ipv4Addr::new(10, 0, s, host));
    }
    b.udp4(9000);
    b.seq(seq);
    b.build(k).unwrap()
}
fn st(conn: bool) -> NodeStatus {
    NodeStatus { state: if conn { ConnectionState::Connected } else { ConnectionState::Disconnected }, direction: ConnectionDirection::Outgoing }
}
fn due(t: &mut T) {
    for b in t.buckets.iter_mut() {
        if let Some(p) = b.pending_mut() {
            p.set_ready_at(Instant::now() - Duration::from_secs(1));
        }
    }
}
/// (max per bucket, total) of stored nodes in 10.0.s.0/24, after applying due pending nodes
fn stored(t: &mut T, s: u8) -> (usize, usize) {
    let _ = t.iter().count();
    let mut total = 0;
    let mut worst = 0;
    for b in t.buckets_iter() {
        let c = b.iter().filter(|n| n.value.ip4().map(|ip| ip.octets()[..3] == [10, 0, s]).unwrap_or(false)).count();
        worst = worst.max(c);
        total += c;
    }
    (worst, total)
}
fn violation(t: &mut T) -> Option<String> {
    for s in 1..=3u8 {
        let (w, tot) = stored(t, s);
        if w > 2 {
            return Some(format!("bucket-limit-exceeded subnet=10.0.{}.0/24 in_bucket={}", s, w));
        }
        if tot > 10 {
            return Some(format!("table-limit-exceeded subnet=10.0.{}.0/24 stored={}", s, tot));
        }
    }
    None
}

#[test]
fn verif_replay_c16_limits() {
    let k = CombinedKey::generate_secp256k1();
    let mut bad = 0;
    // S1: a pending node of subnet 1 waits in a full bucket while the rest of the table fills up with subnet 1
    {
        let mut t = table();
        for i in 0..MAX_NODES_PER_BUCKET as u8 {
            let _ = t.insert_or_update(&key_in(255, i), rec(&k, None, i, 1), st(i != 0));
        }
        let r = t.insert_or_update(&key_in(255, 100), rec(&k, Some(1), 100, 1), st(true));
        let pending = matches!(r, TIR::Pending { .. });
        for i in 0..12u8 {
            let _ = t.insert_or_update(&key_in(200 + (i as usize) % 40, i), rec(&k, Some(1), i, 1), st(true));
        }
        due(&mut t);
        if let Some(v) = violation(&mut t) {
            bad += 1;
            println!("VERIF-REPLAY reproduced class={}-via-pending-slot pending_accepted={} {}", v.split(' ').next().unwrap(), pending, v);
        }
    }
    // S2: ten nodes of subnet 1 stored; an existing node of another subnet gets a record in subnet 1
    for via_update_node in [false, true] {
        let mut t = table();
        for i in 0..10u8 {
            let _ = t.insert_or_update(&key_in(200 + i as usize, i), rec(&k, Some(1), i, 1), st(true));
        }
        let _ = t.insert_or_update(&key_in(250, 77), rec(&k, Some(2), 77, 1), st(true));
        if via_update_node {
            let _ = t.update_node(&key_in(250, 77), rec(&k, Some(1), 77, 2), None);
        } else {
            let _ = t.insert_or_update(&key_in(250, 77), rec(&k, Some(1), 77, 2), st(true));
        }
        if let Some(v) = violation(&mut t) {
            bad += 1;
            println!("VERIF-REPLAY reproduced class={}-via-record-update {}", v.split(' ').next().unwrap(), v);
        }
    }
    // S3: the pending node is re-submitted with a record of a /24 that already has two nodes in the bucket
    {
        let mut t = table();
        for i in 0..MAX_NODES_PER_BUCKET as u8 {
            let sub = if i == 1 || i == 2 { Some(1) } else { None };
            let _ = t.insert_or_update(&key_in(255, i), rec(&k, sub, i, 1), st(i != 0));
        }
        let _ = t.insert_or_update(&key_in(255, 100), rec(&k, None, 100, 1), st(true));
        let _ = t.remove(&key_in(255, 5));
        let _ = t.insert_or_update(&key_in(255, 100), rec(&k, Some(1), 100, 2), st(true));
        if let Some(v) = violation(&mut t) {
            bad += 1;
            println!("VERIF-REPLAY reproduced class={}-via-resubmitted-pending-node {}", v.split(' ').next().unwrap(), v);
        }
    }
    // S4: deterministic operation sequences, few subnets, few buckets
    'outer: for seed in 0..300u64 {
        let mut r = Lcg(seed * 7919 + 5);
        let mut t = table();
        for step in 0..160 {
            let bucket = 250 + (r.next() % 4) as usize;
            let n = (r.next() % 24) as u8;
            let sub = match r.next() % 4 {
                0 => None,
                x => Some(x as u8),
            };
            let kx = key_in(bucket, n);
            match r.next() % 8 {
                0..=3 => {
                    let _ = t.insert_or_update(&kx, rec(&k, sub, n, r.next() % 5), st(r.next() % 3 != 0));
                }
                4 => {
                    let _ = t.update_node(&kx, rec(&k, sub, n, r.next() % 5), None);
                }
                5 => {
                    let _ = t.update_node_status(&kx, st(r.next() % 2 == 0).state, None);
                }
                6 => {
                    let _ = t.remove(&kx);
                }
                _ => due(&mut t),
            }
            if let Some(v) = violation(&mut t) {
                bad += 1;
                println!("VERIF-REPLAY reproduced class={}-in-operation-sequence seed={} step={} {}", v.split(' ').next().unwrap(), seed, step, v);
                break 'outer;
            }
        }
    }
    // nodes without an IPv4 address are never limited
    {
        let mut t = table();
        let mut refused = 0;
        for i in 0..14u8 {
            if let TIR::Failed(FailureReason::TableFilter | FailureReason::BucketFilter) = t.insert_or_update(&key_in(255, i), rec(&k, None, i, 1), st(true)) {
                refused += 1;
            }
        }
        if refused > 0 {
            bad += 1;
            println!("VERIF-REPLAY reproduced class=node-without-ipv4-refused-by-ip-filter count={}", refused);
        }
    }
    println!("VERIF-REPLAY done bad={}", bad);
}
