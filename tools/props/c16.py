"""C16  IP-diversity limits of the routing table."""
from vlib import *

PID = "C16"
LEVEL = "model_checking"
INJ = [("src/kbucket/bucket.rs", "c16_replay.rs", "verif_replay_c16")]

FUNCTIONS = ["kbucket::filter::ip_filter (over mirror records, Enr::ip4 stubbed)",
             "kbucket::bucket::KBucket::{insert, update_value, apply_pending, remove} with a bucket filter, instantiated at <u8, V>",
             "kbucket::KBucketsTable::{insert_or_update, update_node, update_node_status, remove, table_iter} with table and bucket filter (thorough tier)"]
BOUNDS = {"quick": "kernel: candidate + 3 other records with arbitrary presence/absence of an IPv4 address and arbitrary addresses, limit 1..4; bucket level: K scaled "
                   "16 -> 4, limit 2, inductive step from every bucket of 3 or 4 nodes within the limit (any records from 2 subnets + 'no address', any pending "
                   "node due or not) over insert (new key / the pending key), update_value (stored / pending node), apply_pending, remove; loops unwound 34",
          "thorough": "as quick plus the table level: 4-bucket table (keys concrete, so bucket indices are concrete), table limit scaled 10 -> 2, inductive step over "
                      "'stored + pending per /24 <= table limit and stored per bucket <= bucket limit' for insert_or_update (new key, existing key, pending key), "
                      "update_node, update_node_status, remove, on tables with one stored node per bucket plus the pending slot (and one 4+1 instance); one CBMC process at a time with 48 GB; two larger instances (3+1 nodes) ran out of 48 GB and are not part of the tier"}
OUTSIDE = ["real ENR values inside buckets (ENR-valued buckets exhausted 48 GB): the table and bucket code is generic in the value type and the Filter object, "
           "it is instantiated with a 4-byte value type and a filter applying the same counting rule; the real ip_filter is decided separately by the kernel harness",
           "K = 16 and limits 10 / 2 at full scale (the native replay driver runs at full scale with real records)",
           "the Entry API, which documents that it bypasses the filters", "table-level obligations are not part of the quick tier (5-13 minutes and up to 48 GB each)"]
ASSUMPTIONS = [
    "S-vec, S-scale(K=4), S-clock, S-log, S-lock as for C07; S-enr for the kernel (mirror records, Enr::ip4 reads a ghost attribute)",
    "values carry the id of their node (as a record does), so two different nodes never hold equal values",
    "counterexamples are confirmed natively: real IpTableFilter/IpBucketFilter, real signed ENRs, K = 16, limits 10 / 2, scripted scenarios plus 300 deterministic operation sequences",
]
QK = [("kbucket::filter::verif_c16k::c16_ip_filter_kernel_n3", "ip_filter(v, others, L) is false iff v has an IPv4 address and >= L other values (not equal to v) share its /24 (3 others)", ["filter refuses", "filter admits below the limit"]),
      ("kbucket::filter::verif_c16k::c16_ip_filter_kernel_n1", "ip_filter (1 other)", [])]
QB = [("c16b_insert_n3", "bucket insert respects the bucket limit; nodes without address never refused", ["inserted", "refused by the bucket filter"]),
      ("c16b_insert_pending_key_n3", "inserting the node that waits in the pending slot is filtered like any other", ["inserted", "refused by the bucket filter"]),
      ("c16b_insert_n4", "insert into a full bucket", []),
      ("c16b_update_value_n3", "record update of a stored node is filtered; refused => node dropped", ["record updated", "record update refused"]),
      ("c16b_update_value_n4", "record update (full bucket)", ["record updated"]),
      ("c16b_update_value_pending", "record update of the pending node", []),
      ("c16b_apply_pending_n3", "promotion of the pending node is filtered (room in the bucket)", ["pending node promoted"]),
      ("c16b_apply_pending_n4", "promotion of the pending node is filtered (full bucket)", ["pending node promoted"]),
      ("c16b_remove_n4", "remove then promotion", [])]
TT = [("c16_small_insert_new_other_bucket", "table: a new node is counted against stored and pending nodes of every bucket", ["inserted", "refused by the table filter"]),
      ("c16_small_insert_existing", "table: re-submitting a stored node with a new record", []),
      ("c16_small_update_node_other_bucket", "table: update_node moving a node into another /24", ["record updated"]),
      ("c16_small_update_node_same_bucket", "table: update_node in the bucket that has the pending node", []),
      ("c16_status_and_remove_first", "table: status change / removal promote the pending node under the limits", [])]


def prepare(sub, tier):
    apply_common_substitutions(sub)
    sub.regex("src/kbucket.rs", r"^use arrayvec::\{self, ArrayVec\};", "use crate::verif_shims::arrayvec::{self, ArrayVec};", "S-vec")
    sub.regex("src/kbucket/bucket.rs", r"^pub const MAX_NODES_PER_BUCKET: usize = 16;", "pub const MAX_NODES_PER_BUCKET: usize = 4;", "S-scale(K=4)")
    inject_harness(sub, "src/kbucket/filter.rs", "c16_filter.rs", "verif_c16k")
    inject_harness(sub, "src/kbucket/bucket.rs", "c16_bucket.rs", "verif_c16b")
    if tier == "thorough":
        inject_harness(sub, "src/kbucket/bucket.rs", "c16_table.rs", "verif_c16")


def specs(tier, seed):
    S = [dict(harness=n, obligation=o, bounds="see bounds", timeout=1500, mem_gb=8, covers=c) for n, o, c in QK]
    S += [dict(harness="kbucket::bucket::verif_c16b::" + n, obligation=o, bounds="see bounds", timeout=1500, mem_gb=8, covers=c) for n, o, c in QB]
    S.append(dict(harness="kbucket::bucket::verif_c16b::c16b_twin_must_fail", obligation="vacuity twin", bounds="-", timeout=1500, mem_gb=8, kind="twin"))
    if tier == "thorough":
        S += [dict(harness="kbucket::bucket::verif_c16::" + n, obligation=o, bounds="see bounds", timeout=2400, mem_gb=48, covers=c,
                   unwindset=["memcmp.0:34"], auto_unwind=34) for n, o, c in TT]
    return S


def replay(cases, tier, dst):
    return replay_cases(cases, tier, dst, INJ, "verif_replay_c16", once=True)


def replay_file(path):
    return replay_file_generic(path, INJ, "verif_replay_c16")
