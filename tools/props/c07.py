"""C07  Routing-table structural invariants (bucket level: one inductive step per KBucket operation)."""
from vlib import *

PID = "C07"
LEVEL = "model_checking"
MOD = "kbucket::bucket::verif_c07::"
INJ = [("src/kbucket/bucket.rs", "c07_replay.rs", "verif_replay_c07")]

FUNCTIONS = ["kbucket::bucket::KBucket::{new, insert, update_status, update_value, remove, apply_pending, position, is_max_incoming, "
             "update_first_connected_pos_for_removal, iter, pending} instantiated at <u8, u8>",
             "kbucket::key::Key::{new_raw, eq, clone}"]
BOUNDS = {"quick": "MAX_NODES_PER_BUCKET scaled 16 -> 4 (S-scale); inductive step from every bucket of n nodes (n concrete per harness, 0..4) that satisfies the "
                   "representation invariant: any split into disconnected prefix / connected suffix, any directions, values, incoming limit 0..4, pending slot "
                   "empty or holding any node with any status and any deadline relative to the symbolic clock; one operation with arbitrary arguments "
                   "(keys are 32-byte hashes differing in the last byte); loops unwound 34"}
BOUNDS["thorough"] = BOUNDS["quick"]
OUTSIDE = ["K = 16 (same source, larger constant: only the scaled instance is decided by the solver; the native replay driver runs at K = 16)",
           "bucket filters (C16)", "table level: placement by log2 distance is BucketIndex::new = msb (decided under C08); that each table operation "
           "touches only the addressed bucket and refuses the local key is read off the code, not decided here",
           "TVal = Enr (harness uses u8 values)"]
ASSUMPTIONS = [
    "S-vec: arrayvec::ArrayVec replaced by the slot-wise model /verif/shims/arrayvec.rs (differentially tested against arrayvec)",
    "S-scale: MAX_NODES_PER_BUCKET = 4 in the scratch copy", "S-clock: Instant::now replaced by a harness-controlled instant",
    "S-log, S-lock; pointer-validity checks off, panics/overflow/unwinding assertions on",
    "a counterexample whose pre-state no history reaches means the invariant is too weak; every counterexample is therefore confirmed by the native "
    "driver, which runs 1500 deterministic operation sequences at K = 16 against a list model of the same contract",
]
H = [("c07_apply_pending_n2", "apply_pending: only after the deadline; evicts only position 0 and only if disconnected; applied node goes to the end of its group", ["pending node not yet due", "pending node due"]),
     ("c07_apply_pending_n3", "apply_pending (3 nodes)", ["pending node due"]),
     ("c07_apply_pending_n4", "apply_pending (full bucket)", ["pending node due", "pending node evicts the least recently active disconnected node", "pending node dropped because position 0 is connected"]),
     ("c07_insert_n0", "insert into an empty bucket", ["inserted"]),
     ("c07_insert_n2", "insert: end of its group, duplicates and incoming limit refused, pending slot cleared when its node is inserted", ["inserted"]),
     ("c07_insert_n3", "insert (3 nodes)", ["inserted"]),
     ("c07_insert_n4", "insert into a full bucket: refused or pending (only connected, only if position 0 is disconnected and the slot is free)", ["became pending"]),
     ("c07_update_status_n1", "update_status (1 node)", []),
     ("c07_update_status_n3", "update_status: reporting node moves to the end of its new group, nobody else moves; position 0 reconnecting discards the pending node", ["disconnected -> connected", "connected -> disconnected"]),
     ("c07_update_status_n4", "update_status (full bucket)", ["disconnected -> connected", "position 0 reconnects while a node is pending"]),
     ("c07_update_value_n3", "update_value: in place", []), ("c07_update_value_n4", "update_value (full bucket)", []),
     ("c07_remove_n1", "remove (1 node) then pending application", []),
     ("c07_remove_n3", "remove: only the addressed node leaves; then the pending node is applied under the same rules", ["pending node due"]),
     ("c07_remove_n4", "remove (full bucket)", ["pending node due"])]


def prepare(sub, tier):
    apply_common_substitutions(sub)
    sub.regex("src/kbucket.rs", r"^use arrayvec::\{self, ArrayVec\};", "use crate::verif_shims::arrayvec::{self, ArrayVec};", "S-vec")
    sub.regex("src/kbucket/bucket.rs", r"^pub const MAX_NODES_PER_BUCKET: usize = 16;", "pub const MAX_NODES_PER_BUCKET: usize = 4;", "S-scale(K=4)")
    inject_harness(sub, "src/kbucket/bucket.rs", "c07_bucket.rs", "verif_c07")


def specs(tier, seed):
    S = [dict(harness=MOD + n, obligation=o, bounds="see bounds", timeout=2400, mem_gb=8, covers=c) for n, o, c in H]
    S.append(dict(harness=MOD + "c07_twin_must_fail", obligation="vacuity twin", bounds="-", timeout=2400, mem_gb=8, kind="twin"))
    return S


def replay(cases, tier, dst):
    return replay_cases(cases, tier, dst, INJ, "verif_replay_c07", once=True)


def replay_file(path):
    return replay_file_generic(path, INJ, "verif_replay_c07")
