//! S-hash (std / fnv): `std::collections::HashMap` and `fnv::FnvHashMap` modelled as an association
//! list.  Iteration order = insertion order; harnesses that depend on "any iteration order" build the
//! list in an arbitrary (symbolic) order.  Elements are moved by adjacent swaps only.
use std::borrow::Borrow;
use std::marker::PhantomData;
use super::smalllist::{self, SmallList};

#[derive(Clone, Debug)]
pub struct HashMap<K, V, S = ()> {
    pub items: SmallList<(K, V)>,
    _s: PhantomData<S>,
}
pub type FnvHashMap<K, V> = HashMap<K, V, ()>;

impl<K, V, S> Default for HashMap<K, V, S> {
    fn default() -> Self {
        HashMap { items: SmallList::new(), _s: PhantomData }
    }
}
impl<K, V> HashMap<K, V, ()> {
    pub fn new() -> Self {
        Self::default()
    }
    pub fn with_capacity(_n: usize) -> Self {
        Self::default()
    }
}
impl<K: Eq, V, S> HashMap<K, V, S> {
    pub fn len(&self) -> usize {
        self.items.len()
    }
    pub fn is_empty(&self) -> bool {
        self.items.is_empty()
    }
    pub fn clear(&mut self) {
        self.items.clear()
    }
    pub fn pos<Q: ?Sized + Eq>(&self, k: &Q) -> Option<usize>
    where
        K: Borrow<Q>,
    {
        for i in 0..smalllist::CAP {
            if i >= self.items.len() {
                break;
            }
            if self.items[i].0.borrow() == k {
                return Some(i);
            }
        }
        None
    }
    fn take_at(&mut self, i: usize) -> (K, V) {
        self.items.remove(i)
    }
    pub fn contains_key<Q: ?Sized + Eq>(&self, k: &Q) -> bool
    where
        K: Borrow<Q>,
    {
        self.pos(k).is_some()
    }
    pub fn get<Q: ?Sized + Eq>(&self, k: &Q) -> Option<&V>
    where
        K: Borrow<Q>,
    {
        match self.pos(k) {
            Some(i) => Some(&self.items[i].1),
            None => None,
        }
    }
    pub fn get_mut<Q: ?Sized + Eq>(&mut self, k: &Q) -> Option<&mut V>
    where
        K: Borrow<Q>,
    {
        match self.pos(k) {
            Some(i) => Some(&mut self.items[i].1),
            None => None,
        }
    }
    pub fn get_key_value<Q: ?Sized + Eq>(&self, k: &Q) -> Option<(&K, &V)>
    where
        K: Borrow<Q>,
    {
        match self.pos(k) {
            Some(i) => Some((&self.items[i].0, &self.items[i].1)),
            None => None,
        }
    }
    pub fn insert(&mut self, k: K, v: V) -> Option<V> {
        match self.pos(&k) {
            Some(i) => Some(std::mem::replace(&mut self.items[i].1, v)),
            None => {
                self.items.push((k, v));
                None
            }
        }
    }
    pub fn remove<Q: ?Sized + Eq>(&mut self, k: &Q) -> Option<V>
    where
        K: Borrow<Q>,
    {
        match self.pos(k) {
            Some(i) => Some(self.take_at(i).1),
            None => None,
        }
    }
    pub fn remove_entry<Q: ?Sized + Eq>(&mut self, k: &Q) -> Option<(K, V)>
    where
        K: Borrow<Q>,
    {
        match self.pos(k) {
            Some(i) => Some(self.take_at(i)),
            None => None,
        }
    }
    pub fn retain<F: FnMut(&K, &mut V) -> bool>(&mut self, mut f: F) {
        self.items.retain(|e| f(&e.0, &mut e.1))
    }
    pub fn iter(&self) -> Iter<'_, K, V> {
        Iter { inner: self.items.iter() }
    }
    pub fn iter_mut(&mut self) -> IterMut<'_, K, V> {
        IterMut { inner: self.items.iter_mut() }
    }
    pub fn keys(&self) -> impl Iterator<Item = &K> + '_ {
        self.items.iter().map(|e| &e.0)
    }
    pub fn values(&self) -> impl Iterator<Item = &V> + '_ {
        self.items.iter().map(|e| &e.1)
    }
    pub fn values_mut(&mut self) -> impl Iterator<Item = &mut V> + '_ {
        self.items.iter_mut().map(|e| &mut e.1)
    }
    pub fn into_keys(self) -> impl Iterator<Item = K> {
        self.items.into_iter().map(|e| e.0)
    }
    pub fn into_values(self) -> impl Iterator<Item = V> {
        self.items.into_iter().map(|e| e.1)
    }
    pub fn drain(&mut self) -> smalllist::IntoIter<(K, V)> {
        std::mem::take(&mut self.items).into_iter()
    }
    pub fn entry(&mut self, k: K) -> Entry<'_, K, V, S> {
        match self.pos(&k) {
            Some(i) => Entry::Occupied(OccupiedEntry { map: self, idx: i }),
            None => Entry::Vacant(VacantEntry { map: self, key: k }),
        }
    }
}

pub struct Iter<'a, K, V> {
    inner: smalllist::Iter<'a, (K, V)>,
}
impl<'a, K, V> Iterator for Iter<'a, K, V> {
    type Item = (&'a K, &'a V);
    fn next(&mut self) -> Option<Self::Item> {
        match self.inner.next() {
            Some(e) => Some((&e.0, &e.1)),
            None => None,
        }
    }
}
pub struct IterMut<'a, K, V> {
    inner: smalllist::IterMut<'a, (K, V)>,
}
impl<'a, K, V> Iterator for IterMut<'a, K, V> {
    type Item = (&'a K, &'a mut V);
    fn next(&mut self) -> Option<Self::Item> {
        match self.inner.next() {
            Some(e) => Some((&e.0, &mut e.1)),
            None => None,
        }
    }
}
impl<'a, K: Eq, V, S> IntoIterator for &'a HashMap<K, V, S> {
    type Item = (&'a K, &'a V);
    type IntoIter = Iter<'a, K, V>;
    fn into_iter(self) -> Iter<'a, K, V> {
        self.iter()
    }
}
impl<'a, K: Eq, V, S> IntoIterator for &'a mut HashMap<K, V, S> {
    type Item = (&'a K, &'a mut V);
    type IntoIter = IterMut<'a, K, V>;
    fn into_iter(self) -> IterMut<'a, K, V> {
        self.iter_mut()
    }
}
impl<K, V, S> IntoIterator for HashMap<K, V, S> {
    type Item = (K, V);
    type IntoIter = smalllist::IntoIter<(K, V)>;
    fn into_iter(self) -> Self::IntoIter {
        self.items.into_iter()
    }
}
impl<K: Eq, V, S> std::iter::FromIterator<(K, V)> for HashMap<K, V, S> {
    fn from_iter<I: IntoIterator<Item = (K, V)>>(it: I) -> Self {
        let mut m = HashMap::default();
        for (k, v) in it {
            m.insert(k, v);
        }
        m
    }
}
impl<K: Eq, V, S> Extend<(K, V)> for HashMap<K, V, S> {
    fn extend<I: IntoIterator<Item = (K, V)>>(&mut self, it: I) {
        for (k, v) in it {
            self.insert(k, v);
        }
    }
}
impl<K: Eq, V, S, Q: ?Sized + Eq> std::ops::Index<&Q> for HashMap<K, V, S>
where
    K: Borrow<Q>,
{
    type Output = V;
    fn index(&self, k: &Q) -> &V {
        self.get(k).expect("no entry found for key")
    }
}

pub enum Entry<'a, K, V, S = ()> {
    Occupied(OccupiedEntry<'a, K, V, S>),
    Vacant(VacantEntry<'a, K, V, S>),
}
pub struct OccupiedEntry<'a, K, V, S = ()> {
    map: &'a mut HashMap<K, V, S>,
    idx: usize,
}
pub struct VacantEntry<'a, K, V, S = ()> {
    map: &'a mut HashMap<K, V, S>,
    key: K,
}
impl<'a, K: Eq, V, S> OccupiedEntry<'a, K, V, S> {
    pub fn key(&self) -> &K {
        &self.map.items[self.idx].0
    }
    pub fn get(&self) -> &V {
        &self.map.items[self.idx].1
    }
    pub fn get_mut(&mut self) -> &mut V {
        &mut self.map.items[self.idx].1
    }
    pub fn into_mut(self) -> &'a mut V {
        &mut self.map.items[self.idx].1
    }
    pub fn insert(&mut self, v: V) -> V {
        std::mem::replace(&mut self.map.items[self.idx].1, v)
    }
    pub fn remove(self) -> V {
        self.map.take_at(self.idx).1
    }
    pub fn remove_entry(self) -> (K, V) {
        self.map.take_at(self.idx)
    }
}
impl<'a, K: Eq, V, S> VacantEntry<'a, K, V, S> {
    pub fn key(&self) -> &K {
        &self.key
    }
    pub fn into_key(self) -> K {
        self.key
    }
    pub fn insert(self, v: V) -> &'a mut V {
        self.map.items.push((self.key, v));
        let n = self.map.items.len();
        &mut self.map.items[n - 1].1
    }
}
impl<'a, K: Eq, V, S> Entry<'a, K, V, S> {
    pub fn or_insert(self, v: V) -> &'a mut V {
        match self {
            Entry::Occupied(o) => o.into_mut(),
            Entry::Vacant(e) => e.insert(v),
        }
    }
    pub fn or_insert_with<F: FnOnce() -> V>(self, f: F) -> &'a mut V {
        match self {
            Entry::Occupied(o) => o.into_mut(),
            Entry::Vacant(e) => e.insert(f()),
        }
    }
    pub fn or_default(self) -> &'a mut V
    where
        V: Default,
    {
        match self {
            Entry::Occupied(o) => o.into_mut(),
            Entry::Vacant(e) => e.insert(V::default()),
        }
    }
    pub fn and_modify<F: FnOnce(&mut V)>(mut self, f: F) -> Self {
        if let Entry::Occupied(o) = &mut self {
            f(o.get_mut());
        }
        self
    }
    pub fn key(&self) -> &K {
        match self {
            Entry::Occupied(o) => o.key(),
            Entry::Vacant(e) => e.key(),
        }
    }
}
