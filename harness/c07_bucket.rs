//! C07 harnesses — child module of `crate::kbucket::bucket` in the scratch copy
//! (`arrayvec::ArrayVec` replaced by the slot-wise model, `Instant::now` by a symbolic clock,
//! MAX_NODES_PER_BUCKET scaled from 16 to 4).
//!
//! One *inductive step* per bucket operation.  Pre-state: an arbitrary bucket of n nodes (n concrete
//! per harness, 0..=K) satisfying the representation invariant I:
//!   - keys pairwise distinct, the pending key included;
//!   - all disconnected nodes precede all connected ones and `first_connected_pos` is the index of
//!     the first connected node (None if there is none);
//!   - connected incoming nodes <= max_incoming;
//! with arbitrary values, directions, incoming limit 0..=K, an arbitrary pending node (present or
//! not, any status, deadline before/at/after now).  One operation with arbitrary arguments.  Post:
//! I again plus the operation's contract (which node moved where, who may be evicted, order of all
//! other nodes unchanged).  Position inside a group *is* the time order of status reports, so the
//! "ordered by last status report" clause follows by induction from "the reporting node goes to the
//! end of its group and nobody else moves".
#![allow(dead_code, unused_imports, static_mut_refs)]
use super::*;
use enr::k256::sha2::digest::generic_array::GenericArray;
use std::time::{Duration, Instant};

const K: usize = MAX_NODES_PER_BUCKET;
type B = KBucket<u8, u8>;

static mut NOW_S: u64 = 0;
static mut NOW_N: u32 = 0;
fn instant(s: u64, n: u32) -> Instant {
    unsafe { std::mem::zeroed::<Instant>() + Duration::new(s, n) }
}
fn stub_now() -> Instant {
    unsafe { instant(NOW_S, NOW_N) }
}
fn any_time() -> (u64, u32) {
    let s: u64 = kani::any();
    let n: u32 = kani::any();
    kani::assume(s < (1 << 40) && n < 1_000_000_000);
    (s, n)
}
fn le(a: (u64, u32), b: (u64, u32)) -> bool {
    a.0 < b.0 || (a.0 == b.0 && a.1 <= b.1)
}

fn key(b: u8) -> Key<u8> {
    let mut h = [0u8; 32];
    h[31] = b;
    Key::new_raw(b, *GenericArray::from_slice(&h))
}
fn key_byte(k: &Key<u8>) -> u8 {
    *k.preimage()
}
fn status(conn: bool, inc: bool) -> NodeStatus {
    NodeStatus {
        state: if conn { ConnectionState::Connected } else { ConnectionState::Disconnected },
        direction: if inc { ConnectionDirection::Incoming } else { ConnectionDirection::Outgoing },
    }
}
fn any_status() -> NodeStatus {
    status(kani::any(), kani::any())
}

#[derive(Clone, Copy)]
struct Pre {
    n: usize,
    d: usize, // number of disconnected nodes = index of the first connected one
    keys: [u8; K],
    vals: [u8; K],
    inc: [bool; K],
    max_incoming: usize,
    has_pending: bool,
    p_key: u8,
    p_val: u8,
    p_conn: bool,
    p_inc: bool,
    p_deadline: (u64, u32),
    now: (u64, u32),
}

impl Pre {
    fn conn(&self, i: usize) -> bool {
        i >= self.d
    }
    fn index_of(&self, k: u8) -> Option<usize> {
        let mut i = 0;
        while i < K {
            if i < self.n && self.keys[i] == k {
                return Some(i);
            }
            i += 1;
        }
        None
    }
    fn incoming_connected(&self) -> usize {
        let mut c = 0;
        let mut i = 0;
        while i < K {
            if i < self.n && self.conn(i) && self.inc[i] {
                c += 1;
            }
            i += 1;
        }
        c
    }
    fn pending_elapsed(&self) -> bool {
        self.has_pending && le(self.p_deadline, self.now)
    }
}

fn arbitrary_bucket(n: usize) -> (B, Pre) {
    let keys: [u8; K] = kani::any();
    let vals: [u8; K] = kani::any();
    let inc: [bool; K] = kani::any();
    let d: usize = kani::any();
    kani::assume(d <= n);
    let max_incoming: usize = kani::any();
    kani::assume(max_incoming <= K);
    let has_pending: bool = kani::any();
    let p_key: u8 = kani::any();
    let now = any_time();
    let p_deadline = any_time();
    let timeout_s: u64 = kani::any();
    kani::assume(timeout_s < (1 << 40));
    let pre = Pre {
        n,
        d,
        keys,
        vals,
        inc,
        max_incoming,
        has_pending,
        p_key,
        p_val: kani::any(),
        p_conn: kani::any(),
        p_inc: kani::any(),
        p_deadline,
        now,
    };
    // distinct keys (pending included)
    let mut a = 0;
    while a < K {
        let mut b = a + 1;
        while b < K {
            if b < n {
                kani::assume(keys[a] != keys[b]);
            }
            b += 1;
        }
        if a < n && has_pending {
            kani::assume(keys[a] != p_key);
        }
        a += 1;
    }
    kani::assume(pre.incoming_connected() <= max_incoming);
    let mut b: B = KBucket::new(Duration::new(timeout_s, 0), max_incoming, None);
    let mut i = 0;
    while i < K {
        if i < n {
            b.nodes.push(Node {
                key: key(keys[i]),
                value: vals[i],
                status: status(pre.conn(i), inc[i]),
            });
        }
        i += 1;
    }
    b.first_connected_pos = if d < n { Some(d) } else { None };
    if has_pending {
        b.pending = Some(PendingNode {
            node: Node {
                key: key(p_key),
                value: pre.p_val,
                status: status(pre.p_conn, pre.p_inc),
            },
            replace: instant(p_deadline.0, p_deadline.1),
        });
    }
    unsafe {
        NOW_S = now.0;
        NOW_N = now.1;
    }
    (b, pre)
}

/// The representation invariant on the post-state.
fn check_invariant(b: &B, pre: &Pre) {
    let len = b.nodes.len();
    assert!(len <= K, "bucket holds more than K nodes");
    let fcp = b.first_connected_pos;
    let mut incoming = 0;
    let mut i = 0;
    while i < K {
        if i < len {
            let c = b.nodes[i].status.is_connected();
            match fcp {
                Some(p) => {
                    assert!(p < len, "first_connected_pos out of range");
                    assert!(c == (i >= p), "disconnected nodes must precede connected ones / first_connected_pos wrong");
                }
                None => assert!(!c, "connected node although first_connected_pos is None"),
            }
            if c && b.nodes[i].status.is_incoming() {
                incoming += 1;
            }
            let mut j = i + 1;
            while j < K {
                if j < len {
                    assert!(b.nodes[i].key != b.nodes[j].key, "node id occurs twice in the bucket");
                }
                j += 1;
            }
            if let Some(p) = b.pending.as_ref() {
                assert!(p.node.key != b.nodes[i].key, "node id is both in the bucket and in the pending slot");
            }
        }
        i += 1;
    }
    assert!(incoming <= pre.max_incoming, "connected incoming nodes exceed the per-bucket limit");
}

fn pos_in(b: &B, k: u8) -> Option<usize> {
    let mut i = 0;
    while i < K {
        if i < b.nodes.len() && key_byte(&b.nodes[i].key) == k {
            return Some(i);
        }
        i += 1;
    }
    None
}

/// Every pre-state node except `moved` (and except `gone`, which may have left) is still there with
/// the same value and status, and their relative order is unchanged.
fn others_untouched(b: &B, pre: &Pre, moved: Option<u8>, gone: Option<u8>) {
    let mut last: Option<usize> = None;
    let mut i = 0;
    while i < K {
        if i < pre.n && Some(pre.keys[i]) != moved && Some(pre.keys[i]) != gone {
            match pos_in(b, pre.keys[i]) {
                None => assert!(false, "a node that was not addressed disappeared from the bucket"),
                Some(p) => {
                    assert!(b.nodes[p].value == pre.vals[i], "value of an untouched node changed");
                    assert!(b.nodes[p].status == status(pre.conn(i), pre.inc[i]), "status of an untouched node changed");
                    if let Some(lp) = last {
                        assert!(lp < p, "relative order of untouched nodes changed");
                    }
                    last = Some(p);
                }
            }
        }
        i += 1;
    }
}

/// `k` sits at the end of its group: last connected node, or last disconnected node.
fn at_end_of_group(b: &B, k: u8) {
    let len = b.nodes.len();
    match pos_in(b, k) {
        None => assert!(false, "node expected in the bucket"),
        Some(p) => {
            if b.nodes[p].status.is_connected() {
                assert!(p + 1 == len, "a node that just reported connected must be the most recently connected one");
            } else {
                match b.first_connected_pos {
                    Some(f) => assert!(p + 1 == f, "a node that just reported disconnected must be the most recently disconnected one"),
                    None => assert!(p + 1 == len, "a node that just reported disconnected must be the most recently disconnected one"),
                }
            }
        }
    }
}

fn pending_unchanged(b: &B, pre: &Pre) {
    match b.pending.as_ref() {
        None => assert!(!pre.has_pending, "pending node dropped"),
        Some(p) => {
            assert!(pre.has_pending && key_byte(&p.node.key) == pre.p_key && p.node.value == pre.p_val);
            assert!(p.node.status == status(pre.p_conn, pre.p_inc));
            assert!(p.replace == instant(pre.p_deadline.0, pre.p_deadline.1), "deadline of the pending node changed");
        }
    }
}

fn nodes_unchanged(b: &B, pre: &Pre) {
    assert!(b.nodes.len() == pre.n, "number of nodes changed");
    others_untouched(b, pre, None, None);
    assert!(b.first_connected_pos == if pre.d < pre.n { Some(pre.d) } else { None });
}

/// What `apply_pending` must have done to a bucket whose pre-state is `pre` (no filter configured).
fn check_apply_pending_effect(b: &B, pre: &Pre) {
    if !pre.has_pending {
        nodes_unchanged(b, pre);
        assert!(b.pending.is_none());
        return;
    }
    if !pre.pending_elapsed() {
        kani::cover!(true, "pending node not yet due");
        // a pending node never enters before its timeout
        nodes_unchanged(b, pre);
        pending_unchanged(b, pre);
        return;
    }
    kani::cover!(true, "pending node due");
    assert!(b.pending.is_none(), "a due pending node is either applied or dropped");
    let full = pre.n == K;
    let admissible_incoming = !(pre.p_conn && pre.p_inc && pre.incoming_connected() >= pre.max_incoming);
    if full {
        if pre.d == 0 || !admissible_incoming {
            // least recently active node is connected (it reconnected) or the incoming limit forbids it: dropped
            kani::cover!(pre.d == 0, "pending node dropped because position 0 is connected");
            nodes_unchanged(b, pre);
        } else {
            kani::cover!(true, "pending node evicts the least recently active disconnected node");
            assert!(b.nodes.len() == K);
            assert!(pos_in(b, pre.keys[0]).is_none(), "the evicted node must be the least recently active disconnected one");
            others_untouched(b, pre, None, Some(pre.keys[0]));
            at_end_of_group(b, pre.p_key);
            let p = pos_in(b, pre.p_key).unwrap();
            assert!(b.nodes[p].value == pre.p_val && b.nodes[p].status == status(pre.p_conn, pre.p_inc));
        }
    } else {
        // room in the bucket: plain insertion (may be refused by the incoming limit)
        others_untouched(b, pre, None, None);
        if admissible_incoming {
            assert!(b.nodes.len() == pre.n + 1, "pending node with room in the bucket was not inserted");
            at_end_of_group(b, pre.p_key);
        } else {
            assert!(b.nodes.len() == pre.n);
        }
    }
}

// ---------------------------------------------------------------------------------------------
fn step_apply_pending(n: usize) {
    let (mut b, pre) = arbitrary_bucket(n);
    let r = b.apply_pending();
    check_invariant(&b, &pre);
    check_apply_pending_effect(&b, &pre);
    if let Some(ap) = r.as_ref() {
        assert!(pre.pending_elapsed(), "a pending node entered the bucket before its timeout");
        assert!(key_byte(&ap.inserted) == pre.p_key);
        if let Some(ev) = ap.evicted.as_ref() {
            assert!(pre.n == K && key_byte(&ev.key) == pre.keys[0] && pre.d > 0, "only the least recently active disconnected node may be evicted");
        }
    }
    std::mem::forget(r);
    std::mem::forget(b);
}

fn step_insert(n: usize) {
    let (mut b, pre) = arbitrary_bucket(n);
    let k: u8 = kani::any();
    let v: u8 = kani::any();
    let conn: bool = kani::any();
    let inc: bool = kani::any();
    let r = b.insert(Node { key: key(k), value: v, status: status(conn, inc) });
    check_invariant(&b, &pre);
    let existed = pre.index_of(k).is_some();
    match &r {
        InsertResult::Inserted => {
            kani::cover!(true, "inserted");
            assert!(!existed, "duplicate insertion reported as success");
            assert!(pre.n < K, "inserted into a full bucket");
            assert!(b.nodes.len() == pre.n + 1);
            others_untouched(&b, &pre, None, None);
            at_end_of_group(&b, k);
            let p = pos_in(&b, k).unwrap();
            assert!(b.nodes[p].value == v && b.nodes[p].status == status(conn, inc));
            if conn && inc {
                assert!(pre.incoming_connected() < pre.max_incoming, "incoming limit ignored");
            }
            if pre.has_pending && pre.p_key == k {
                assert!(b.pending.is_none(), "inserted node still occupies the pending slot");
            } else {
                pending_unchanged(&b, &pre);
            }
        }
        InsertResult::Pending { disconnected } => {
            kani::cover!(true, "became pending");
            // only a connected node, only into a full bucket whose least recently active node is
            // disconnected, only if the slot was free
            assert!(conn && pre.n == K && pre.d > 0 && !pre.has_pending && !existed);
            assert!(key_byte(disconnected) == pre.keys[0], "the node to be challenged is the least recently active disconnected one");
            nodes_unchanged(&b, &pre);
            match b.pending.as_ref() {
                Some(p) => {
                    assert!(key_byte(&p.node.key) == k && p.node.value == v);
                    assert!(p.replace == stub_now() + b.pending_timeout, "pending deadline = now + pending timeout");
                }
                None => assert!(false, "Pending reported but slot empty"),
            }
        }
        _ => {
            // refused: nothing changes
            nodes_unchanged(&b, &pre);
            pending_unchanged(&b, &pre);
            // and a refusal has a reason
            let full = pre.n == K;
            let too_many = conn && inc && pre.incoming_connected() >= pre.max_incoming;
            assert!(existed || full || too_many, "insertion refused without reason");
        }
    }
    std::mem::forget(r);
    std::mem::forget(b);
}

fn step_update_status(n: usize) {
    let (mut b, pre) = arbitrary_bucket(n);
    let k: u8 = kani::any();
    let conn: bool = kani::any();
    let has_dir: bool = kani::any();
    let inc: bool = kani::any();
    let state = if conn { ConnectionState::Connected } else { ConnectionState::Disconnected };
    let dir = if has_dir {
        Some(if inc { ConnectionDirection::Incoming } else { ConnectionDirection::Outgoing })
    } else {
        None
    };
    let r = b.update_status(&key(k), state, dir);
    check_invariant(&b, &pre);
    match pre.index_of(k) {
        Some(i) => {
            let new_inc = if has_dir { inc } else { pre.inc[i] };
            if r.failed() {
                kani::cover!(true, "status update refused: node removed");
                // the only reason is the incoming limit; the node is gone, everybody else stays
                assert!(conn && new_inc, "status update failed without reason");
                assert!(pos_in(&b, k).is_none());
                others_untouched(&b, &pre, None, Some(k));
                assert!(b.nodes.len() == pre.n - 1);
            } else {
                assert!(b.nodes.len() == pre.n);
                others_untouched(&b, &pre, Some(k), None);
                let p = pos_in(&b, k).unwrap();
                assert!(b.nodes[p].status == status(conn, new_inc), "status not updated");
                assert!(b.nodes[p].value == pre.vals[i]);
                at_end_of_group(&b, k);
                kani::cover!(!pre.conn(i) && conn, "disconnected -> connected");
                kani::cover!(pre.conn(i) && !conn, "connected -> disconnected");
            }
            // the pending node is discarded iff the least recently active node reconnects
            if i == 0 && conn {
                kani::cover!(pre.has_pending, "position 0 reconnects while a node is pending");
                assert!(b.pending.is_none(), "pending node must be discarded when the node it would evict reconnects");
            } else {
                pending_unchanged(&b, &pre);
            }
        }
        None => {
            nodes_unchanged(&b, &pre);
            if pre.has_pending && pre.p_key == k {
                let p = b.pending.as_ref().unwrap();
                assert!(p.node.status == status(conn, if has_dir { inc } else { pre.p_inc }));
                assert!(key_byte(&p.node.key) == k && p.node.value == pre.p_val);
                assert!(p.replace == instant(pre.p_deadline.0, pre.p_deadline.1));
            } else {
                pending_unchanged(&b, &pre);
                assert!(r.failed());
            }
        }
    }
    std::mem::forget(r);
    std::mem::forget(b);
}

fn step_update_value(n: usize) {
    let (mut b, pre) = arbitrary_bucket(n);
    let k: u8 = kani::any();
    let v: u8 = kani::any();
    let r = b.update_value(&key(k), v);
    check_invariant(&b, &pre);
    match pre.index_of(k) {
        Some(i) => {
            assert!(!r.failed());
            assert!(b.nodes.len() == pre.n);
            others_untouched(&b, &pre, Some(k), None);
            let p = pos_in(&b, k).unwrap();
            assert!(p == i, "a value update must not move the node");
            assert!(b.nodes[p].value == v && b.nodes[p].status == status(pre.conn(i), pre.inc[i]));
            assert!(b.first_connected_pos == if pre.d < pre.n { Some(pre.d) } else { None });
            pending_unchanged(&b, &pre);
        }
        None => {
            nodes_unchanged(&b, &pre);
            if pre.has_pending && pre.p_key == k {
                let p = b.pending.as_ref().unwrap();
                assert!(p.node.value == v && key_byte(&p.node.key) == k);
            } else {
                pending_unchanged(&b, &pre);
            }
        }
    }
    std::mem::forget(r);
    std::mem::forget(b);
}

fn step_remove(n: usize) {
    let (mut b, pre) = arbitrary_bucket(n);
    let k: u8 = kani::any();
    let r = b.remove(&key(k));
    check_invariant(&b, &pre);
    match pre.index_of(k) {
        None => {
            assert!(!r);
            nodes_unchanged(&b, &pre);
            pending_unchanged(&b, &pre);
        }
        Some(i) => {
            assert!(r);
            assert!(pos_in(&b, k).is_none() || (pre.has_pending && pre.p_key == k), "removed node still present");
            // the rest is the effect of apply_pending on the bucket without node i
            let mut q = pre;
            let mut j = 0;
            while j + 1 < K {
                if j >= i {
                    q.keys[j] = pre.keys[j + 1];
                    q.vals[j] = pre.vals[j + 1];
                    q.inc[j] = pre.inc[j + 1];
                }
                j += 1;
            }
            q.n = pre.n - 1;
            q.d = if i < pre.d { pre.d - 1 } else { pre.d };
            check_apply_pending_effect(&b, &q);
        }
    }
    std::mem::forget(b);
}

macro_rules! harnesses {
    ($($name:ident => $body:expr;)*) => {$(
        #[kani::proof]
        #[kani::unwind(34)]
        #[kani::stub(std::time::Instant::now, stub_now)]
        fn $name() { $body }
    )*};
}
harnesses! {
    c07_apply_pending_n2 => step_apply_pending(2);
    c07_apply_pending_n3 => step_apply_pending(3);
    c07_apply_pending_n4 => step_apply_pending(4);
    c07_insert_n0 => step_insert(0);
    c07_insert_n2 => step_insert(2);
    c07_insert_n3 => step_insert(3);
    c07_insert_n4 => step_insert(4);
    c07_update_status_n1 => step_update_status(1);
    c07_update_status_n3 => step_update_status(3);
    c07_update_status_n4 => step_update_status(4);
    c07_update_value_n3 => step_update_value(3);
    c07_update_value_n4 => step_update_value(4);
    c07_remove_n1 => step_remove(1);
    c07_remove_n3 => step_remove(3);
    c07_remove_n4 => step_remove(4);
    c07_twin_must_fail => { step_update_status(3); assert!(false, "twin"); };
}
