#!/usr/bin/env python3
"""keep_seed.py <Cxx> <A|B> <needs> <detected-by|MISSED|NA> : files a confirmed seeded defect under /verif/seeded."""
import json, os, shutil, sys
pid, v, needs, det = sys.argv[1:5]
src = "/tmp/seedout/%s/%s" % (pid, v)
dst = "/verif/seeded/%s-%s" % (pid, v)
os.makedirs(dst, exist_ok=True)
for f in ("patch.diff", "demo.diff", "demo_cmd.txt", "notes.md"):
    shutil.copy(os.path.join(src, f), os.path.join(dst, f))
meta = {"property": pid, "variant": v, "needs_to_manifest": needs,
        "confirmed": "tools/confirm_seed.sh in a scratch worktree of /repo HEAD: patch applies and the 121 existing tests pass; demo passes without and fails with the patch",
        "check_result": det}
json.dump(meta, open(os.path.join(dst, "meta.json"), "w"), indent=1)
print("kept", dst)
