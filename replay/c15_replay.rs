//! Native replay driver for C15 — `#[cfg(test)]` child of `crate::lru_time_cache` in an unmodified
//! copy of /repo: real hashlink map, real clock (short ttl + real sleeps).
use super::*;
use std::thread::sleep;
use std::time::Duration;

#[test]
fn verif_replay_c15_cache() {
    let mut bad = 0;
    let ttl = Duration::from_millis(60);
    let long = Duration::from_millis(150);
    let short = Duration::from_millis(5);
    // (1) an entry idle for longer than the ttl must not be handed out
    {
        let mut c: LruTimeCache<u8, u8> = LruTimeCache::new(ttl, Some(3));
        c.insert(1, 10);
        sleep(long);
        if c.get(&1).is_some() {
            bad += 1;
            println!("VERIF-REPLAY reproduced class=expired-entry-handed-out op=get idle_ms=150 ttl_ms=60");
        }
        let mut c: LruTimeCache<u8, u8> = LruTimeCache::new(ttl, Some(3));
        c.insert(1, 10);
        sleep(long);
        if c.get_mut(&1).is_some() {
            bad += 1;
            println!("VERIF-REPLAY reproduced class=expired-entry-handed-out op=get_mut idle_ms=150 ttl_ms=60");
        }
        let mut c: LruTimeCache<u8, u8> = LruTimeCache::new(ttl, Some(3));
        c.insert(1, 10);
        sleep(long);
        if c.peek(&1).is_some() {
            bad += 1;
            println!("VERIF-REPLAY reproduced class=expired-entry-handed-out op=peek idle_ms=150 ttl_ms=60");
        }
        // expired lookup must not refresh: the purge still finds it
        let mut c: LruTimeCache<u8, u8> = LruTimeCache::new(ttl, Some(3));
        c.insert(1, 10);
        sleep(long);
        let _ = c.get(&1);
        let purged = c.remove_expired_values();
        if c.peek(&1).is_some() || (purged != vec![1] && !purged.is_empty()) {
            bad += 1;
            println!("VERIF-REPLAY reproduced class=expired-entry-refreshed-by-lookup");
        }
    }
    // (2) a live entry is handed out and refreshed by use
    {
        let mut c: LruTimeCache<u8, u8> = LruTimeCache::new(Duration::from_millis(200), Some(3));
        c.insert(1, 10);
        let mut ok = true;
        for _ in 0..4 {
            sleep(Duration::from_millis(100));
            ok &= c.get(&1) == Some(&10);
        }
        if !ok {
            bad += 1;
            println!("VERIF-REPLAY reproduced class=live-entry-not-returned-or-not-refreshed");
        }
    }
    // (3) capacity and LRU eviction
    for cap in 1..=3usize {
        let mut c: LruTimeCache<u8, u8> = LruTimeCache::new(Duration::from_secs(60), Some(cap));
        for k in 0..cap as u8 {
            c.insert(k, k);
            sleep(short);
        }
        // touch key 0 so that key 1 (or 0 when cap == 1) is the least recently used
        let _ = c.get(&0);
        c.insert(100, 100);
        let lru = if cap == 1 { 0 } else { 1 };
        if c.len() > cap {
            bad += 1;
            println!("VERIF-REPLAY reproduced class=capacity-exceeded cap={} len={}", cap, c.len());
        } else if c.peek(&lru).is_some() || c.peek(&100).is_none() || (cap > 1 && c.peek(&0).is_none()) {
            bad += 1;
            println!("VERIF-REPLAY reproduced class=evicted-entry-is-not-the-least-recently-used cap={}", cap);
        }
        // replacing an existing key must not evict
        let mut c: LruTimeCache<u8, u8> = LruTimeCache::new(Duration::from_secs(60), Some(cap));
        for k in 0..cap as u8 {
            c.insert(k, k);
        }
        c.insert(0, 7);
        if c.len() != cap || c.peek(&0) != Some(&7) || (0..cap as u8).any(|k| c.peek(&k).is_none()) {
            bad += 1;
            println!("VERIF-REPLAY reproduced class=replace-evicts-or-loses-value cap={}", cap);
        }
    }
    // (4) purge removes exactly the expired entries
    {
        let mut c: LruTimeCache<u8, u8> = LruTimeCache::new(ttl, Some(3));
        c.insert(1, 1);
        c.insert(2, 2);
        sleep(long);
        c.insert(3, 3);
        let mut out = c.remove_expired_values();
        out.sort();
        if out != vec![1, 2] || c.peek(&3).is_none() || c.len() != 1 {
            bad += 1;
            println!("VERIF-REPLAY reproduced class=purge-not-exact out={:?} len={}", out, c.len());
        }
    }
    // (5) a purge that finds nothing expired must not change the recency order
    {
        let mut c: LruTimeCache<u8, u8> = LruTimeCache::new(Duration::from_secs(60), Some(2));
        c.insert(1, 1);
        sleep(short);
        c.insert(2, 2);
        sleep(short);
        let purged = c.remove_expired_values();
        c.insert(3, 3);
        if !purged.is_empty() || c.peek(&1).is_some() || c.peek(&2).is_none() || c.peek(&3).is_none() {
            bad += 1;
            println!("VERIF-REPLAY reproduced class=purge-changes-recency-order purged={:?}", purged);
        }
        // ... also with traffic on the older entry in between
        let mut c: LruTimeCache<u8, u8> = LruTimeCache::new(Duration::from_secs(60), Some(2));
        c.insert(1, 1);
        sleep(short);
        c.insert(2, 2);
        sleep(short);
        let _ = c.get(&1);
        let _ = c.remove_expired_values();
        c.insert(3, 3);
        if c.peek(&2).is_some() || c.peek(&1).is_none() {
            bad += 1;
            println!("VERIF-REPLAY reproduced class=purge-changes-recency-order variant=after-traffic");
        }
    }
    println!("VERIF-REPLAY done bad={}", bad);
}
