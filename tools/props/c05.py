"""C05  Packet wire codec (decided parts: encode layout, kind codec, length guards)."""
from vlib import *

PID = "C05"
LEVEL = "model_checking"
MOD = "packet::verif_c05::"
INJ = [("src/packet/mod.rs", "c05_replay.rs", "verif_replay_c05")]

FUNCTIONS = ["packet::Packet::{encode, encrypt_header, authenticated_data, decode (length guards only)}", "packet::PacketHeader::encode",
             "packet::PacketKind::{encode, decode, From<&PacketKind> for u8}"]
BOUNDS = {"quick": "encode layout: Message (body 0 and 17 bytes) and WHOAREYOU packets with every iv, nonce, protocol identity, ids, id-nonce, enr-seq and a fully symbolic "
                   "keystream; PacketKind codec: Message / WHOAREYOU round trip for all field values, PacketKind::decode on arbitrary auth-data of 31/32/33 (Message), "
                   "23/24/25 (WHOAREYOU), 33/34/40 (Handshake) bytes and an unknown kind; Packet::decode on lengths 0..62 and 1281..1400; loops unwound 40, "
                   "keystream loop 170, byte compares 200"}
BOUNDS["thorough"] = BOUNDS["quick"]
OUTSIDE = ["Packet::decode beyond its length guards (unmasking, auth-data size check, reconstruction of the authenticated bytes, WHOAREYOU-with-body check) and the full "
           "decode(encode(p)) round trip: every encoding tried (symbolic datagrams of 63-80 bytes, steering bytes concrete, round trips with a concrete keystream) "
           "exhausted 48 GB - the received bytes are copied into heap vectors before they are inspected, constants do not survive that copy in CBMC and all three "
           "packet kinds including record decoding are explored for every datagram",
           "Handshake packets on the encode side and handshake auth-data round trips (signature/key sizes become symbolic lengths of heap vectors: 48 GB exhausted)",
           "real AES-128-CTR (S-ctr) and real record bytes (S-enr wire model); a datagram masked for another node id is rejected only with overwhelming probability - not a solver statement"]
ASSUMPTIONS = [
    "S-ctr: header masking = XOR with a keystream determined by (key, iv); the keystream is fully symbolic; the model records the key and iv the code uses",
    "S-enr wire model: an embedded record occupies a fixed number of bytes; decoding fails or returns the record those bytes denote",
    "S-zero: zeroize is a no-op (inline asm); S-rng; S-log; S-lock; pointer-validity checks off, panics/overflow/unwinding assertions on",
]
US = ["memcmp.0:200", "_RNvMNtNtCsiaYtZv1joL_6discv511verif_shims3ctrNtB2_6SymCtr15apply_keystream.0:170"]
H = [("c05_length_guards", "datagrams shorter than 63 or longer than 1280 bytes are rejected", []),
     ("c05_encode_layout_message_b0", "Message: iv || masked(protocol-id, version, flag, nonce, authsize, src id) || body; key = dst[..16]; authenticated data = iv || header", []),
     ("c05_encode_layout_message_b17", "Message with a 17-byte body", []),
     ("c05_encode_layout_whoareyou", "WHOAREYOU: authdata = id-nonce || enr-seq, no body", []),
     ("c05_kind_roundtrip_message", "PacketKind::decode(0, encode(Message)) is the identity", []),
     ("c05_kind_roundtrip_whoareyou", "PacketKind::decode(1, encode(WhoAreYou)) is the identity", []),
     ("c05_kind_message_32", "Message auth-data must be exactly 32 bytes", []), ("c05_kind_message_31", "31 bytes rejected", ["auth-data rejected"]),
     ("c05_kind_message_33", "33 bytes rejected", ["auth-data rejected"]),
     ("c05_kind_whoareyou_24", "WHOAREYOU auth-data must be exactly 24 bytes", []), ("c05_kind_whoareyou_25", "25 bytes rejected", ["auth-data rejected"]),
     ("c05_kind_whoareyou_23", "23 bytes rejected", ["auth-data rejected"]),
     ("c05_kind_handshake_33", "Handshake auth-data shorter than 34 bytes rejected", ["auth-data rejected"]),
     ("c05_kind_handshake_34", "Handshake auth-data of 34 bytes: sizes must both be zero", []),
     ("c05_kind_handshake_40", "Handshake auth-data of 40 bytes: sig/key sizes consistent, slices exact, record iff bytes remain", ["handshake auth-data accepted", "auth-data rejected"]),
     ("c05_kind_unknown", "unknown kind rejected", ["auth-data rejected"])]


def prepare(sub, tier):
    apply_common_substitutions(sub)
    sub.regex("src/packet/mod.rs", r"^type Aes128Ctr64BE = ctr::Ctr64BE<aes::Aes128>;", "type Aes128Ctr64BE = crate::verif_shims::ctr::SymCtr;", "S-ctr")
    sub.regex("src/packet/mod.rs", r"<Enr>::decode\(", "crate::verif_shims::enr_mirror::decode_record(", "S-enr(wire decode)")
    sub.regex("src/packet/mod.rs", r"enr_record\.as_ref\(\)\.map\(alloy_rlp::encode\)", "enr_record.as_ref().map(crate::verif_shims::enr_mirror::encode_record)", "S-enr(wire encode)")
    sub.regex("src/packet/mod.rs", r"^use zeroize::Zeroize;", "use crate::verif_shims::zero::Zeroize;", "S-zero")
    inject_harness(sub, "src/packet/mod.rs", "c05_packet.rs", "verif_c05")


def specs(tier, seed):
    S = [dict(harness=MOD + n, obligation=o, bounds="see bounds", timeout=1800, mem_gb=10, covers=c, unwindset=list(US), auto_unwind=170,
              auto_unwind_match=["SymCtr", "generic_array"]) for n, o, c in H]
    S.append(dict(harness=MOD + "c05_twin_must_fail", obligation="vacuity twin", bounds="-", timeout=1800, mem_gb=10, kind="twin", unwindset=list(US),
                  auto_unwind=170, auto_unwind_match=["SymCtr", "generic_array"]))
    return S


def replay(cases, tier, dst):
    return replay_cases(cases, tier, dst, INJ, "verif_replay_c05", once=True)


def replay_file(path):
    return replay_file_generic(path, INJ, "verif_replay_c05")
