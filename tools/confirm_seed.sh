#!/bin/bash
# confirm_seed.sh <seed-dir> : confirms a seeded defect in a scratch worktree of /repo's HEAD
#   (a) patch applies, compiles, existing suite passes   (b) demo passes without the patch   (c) demo fails with it
set -u
d="$1"; wt=/tmp/confirm-wt-$$
export CARGO_NET_OFFLINE=true
git -C /repo worktree add -f --detach "$wt" HEAD >/dev/null 2>&1 || { echo "worktree failed"; exit 3; }
trap 'git -C /repo worktree remove --force "$wt" >/dev/null 2>&1' EXIT
cd "$wt"
[ -d /repo/target/debug ] && mkdir -p target && cp -a /repo/target/debug target/debug
demo_cmd="$(cat "$d/demo_cmd.txt" | grep -o 'cargo test.*' | head -1)"
git apply "$d/patch.diff" || { echo "RESULT patch-does-not-apply"; exit 2; }
suite=$(cargo test --offline --lib 2>&1 | grep "^test result" | tail -1)
echo "suite with patch: $suite"
case "$suite" in *"121 passed; 0 failed"*) a=ok;; *) suite=$(cargo test --offline --lib 2>&1 | grep "^test result" | tail -1); echo "suite retry: $suite"; case "$suite" in *"121 passed; 0 failed"*) a=ok;; *) a=bad;; esac;; esac
git apply "$d/demo.diff" || { echo "RESULT demo-does-not-apply-with-patch"; exit 2; }
with=$($demo_cmd 2>&1 | grep "^test result" | tail -1)
echo "demo with patch: $with"
git apply -R "$d/patch.diff" || { echo "RESULT cannot-revert"; exit 2; }
without=$($demo_cmd 2>&1 | grep "^test result" | tail -1)
echo "demo without patch: $without"
c=bad; case "$with" in *"FAILED"*) c=ok;; esac
b=bad; case "$without" in "test result: ok"*) b=ok;; esac
echo "RESULT suite=$a demo_without=$b demo_with_fails=$c"
[ "$a$b$c" = "okokok" ] && exit 0 || exit 1
