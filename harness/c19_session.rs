//! C19 (message-nonce uniqueness) and C02 obligations (b), (c) — compiled as a child module of
//! `crate::handler::session` in the scratch copy.  The AEAD primitive and the RNG are replaced by
//! stubs (`kani::stub`): the AEAD stub records exactly what the session hands to it.
#![allow(dead_code, unused_imports, static_mut_refs)]
use super::*;
use crate::packet::{Packet, PacketHeader, PacketKind, ProtocolIdentity, MESSAGE_NONCE_LENGTH};

const LOG_CAP: usize = 4;
const AAD_CAP: usize = 80;

#[derive(Clone, Copy)]
struct AeadCall {
    key: [u8; 16],
    nonce: [u8; 12],
    aad_len: usize,
    aad: [u8; AAD_CAP],
    msg_len: usize,
    msg0: u8,
}
const EMPTY_CALL: AeadCall = AeadCall {
    key: [0; 16],
    nonce: [0; 12],
    aad_len: 0,
    aad: [0; AAD_CAP],
    msg_len: 0,
    msg0: 0,
};
static mut ENC_LOG: [AeadCall; LOG_CAP] = [EMPTY_CALL; LOG_CAP];
static mut ENC_N: usize = 0;
static mut DEC_LOG: [AeadCall; LOG_CAP] = [EMPTY_CALL; LOG_CAP];
static mut DEC_N: usize = 0;
/// Outcome the ideal AEAD gives to the i-th decryption (chosen by the harness).
static mut DEC_OK: [bool; LOG_CAP] = [false; LOG_CAP];

fn record(key: &[u8; 16], nonce: [u8; 12], msg: &[u8], aad: &[u8]) -> AeadCall {
    let mut c = EMPTY_CALL;
    c.key = *key;
    c.nonce = nonce;
    c.aad_len = aad.len();
    let mut i = 0;
    while i < AAD_CAP {
        if i < aad.len() {
            c.aad[i] = aad[i];
        }
        i += 1;
    }
    c.msg_len = msg.len();
    c.msg0 = if msg.is_empty() { 0 } else { msg[0] };
    c
}

/// S-aead (encrypt side): opaque ciphertext of len(msg)+16; the call is logged.
fn stub_encrypt(key: &[u8; 16], nonce: [u8; 12], msg: &[u8], aad: &[u8]) -> Result<Vec<u8>, Error> {
    unsafe {
        assert!(ENC_N < LOG_CAP);
        ENC_LOG[ENC_N] = record(key, nonce, msg, aad);
        ENC_N += 1;
    }
    let mut out = Vec::with_capacity(msg.len() + 16);
    let mut i = 0;
    while i < msg.len() + 16 {
        out.push(kani::any());
        i += 1;
    }
    Ok(out)
}

/// S-aead (decrypt side): the harness decides which call authenticates; plaintext is opaque.
fn stub_decrypt(key: &[u8; 16], nonce: [u8; 12], msg: &[u8], aad: &[u8]) -> Result<Vec<u8>, Error> {
    unsafe {
        assert!(DEC_N < LOG_CAP);
        DEC_LOG[DEC_N] = record(key, nonce, msg, aad);
        let ok = DEC_OK[DEC_N];
        DEC_N += 1;
        if ok {
            let mut v = Vec::with_capacity(1);
            v.push(0xAA);
            Ok(v)
        } else {
            Err(Error::Custom("stub: authentication failed"))
        }
    }
}

/// S-rng: any value of the requested type.
pub fn stub_random<T>() -> T
where
    rand::distributions::Standard: rand::distributions::Distribution<T>,
{
    unsafe {
        let mut v = std::mem::MaybeUninit::<T>::uninit();
        let p = v.as_mut_ptr() as *mut u8;
        let mut i = 0;
        while i < std::mem::size_of::<T>() {
            *p.add(i) = kani::any();
            i += 1;
        }
        v.assume_init()
    }
}

fn any_keys() -> Keys {
    Keys {
        encryption_key: kani::any(),
        decryption_key: kani::any(),
    }
}

fn any_session(counter_room: u32) -> Session {
    let counter: u32 = kani::any();
    // bound of the claim: fewer than 2^32 messages per Session object (debug builds panic on the
    // overflowing increment, release builds wrap)
    kani::assume(counter < u32::MAX - counter_room);
    let has_old: bool = kani::any();
    // built through the constructor so that fields added to Session later do not break the harness
    let mut s = Session::new(any_keys());
    s.old_keys = if has_old { Some(any_keys()) } else { None };
    s.counter = counter;
    s
}

fn any_node_id() -> NodeId {
    let b: [u8; 32] = kani::any();
    NodeId::new(&b)
}

fn proto() -> ProtocolIdentity {
    ProtocolIdentity {
        protocol_id: kani::any(),
        protocol_version: kani::any(),
    }
}

/// One operation between two encryptions.  `op` and the AEAD outcomes are *concrete* per harness
/// (a symbolic outcome merges `Ok`/`Err(..)` values and makes CBMC explore the drop glue of every
/// `Error` variant, including the B-tree inside `Box<Challenge>`): 0 nothing, 1 re-key (`update`),
/// 2 inbound message accepted by the current key, 3 rejected by the current and accepted by the
/// old key (keys rotate back), 4 rejected by both.
fn interleaved_op(s: &mut Session, op: u8) {
    if op == 1 {
        let mut fresh = Session::new(any_keys());
        fresh.counter = kani::any(); // whatever a freshly established session may carry
        s.update(fresh);
    } else if op >= 2 {
        unsafe {
            DEC_N = 0;
            DEC_OK = match op {
                2 => [true, false, false, false],
                3 => [false, true, false, false],
                _ => [false, false, false, false],
            };
        }
        let nonce: [u8; 12] = kani::any();
        let ct: [u8; 17] = kani::any();
        let aad: [u8; 8] = kani::any();
        let r = s.decrypt_message(nonce, &ct, &aad);
        std::mem::forget(r);
    }
}

// ---------------------------------------------------------------------------------------------
// C19: under one key, two encryptions never carry the same nonce, whatever the RNG returns
// ---------------------------------------------------------------------------------------------
fn check_pair_distinct() {
    unsafe {
        assert!(ENC_N == 2);
        let (a, b) = (ENC_LOG[0], ENC_LOG[1]);
        kani::cover!(a.key == b.key, "same key for both messages");
        // the random part of the nonce is arbitrary here (S-rng), so this asks that uniqueness does
        // not rest on the RNG alone
        if a.key == b.key {
            assert!(a.nonce != b.nonce, "nonce reused under one key");
        }
    }
}

/// encrypt; op1; op2; encrypt     (op = 0 is "nothing", so shorter sequences are included)
fn nonce_unique_seq(op1: u8, op2: u8) {
    let mut s = any_session(4);
    let src = any_node_id();
    let pi = proto();
    let m1: [u8; 2] = kani::any();
    let m2: [u8; 2] = kani::any();
    let p1 = s.encrypt_message(src, &m1, pi);
    interleaved_op(&mut s, op1);
    interleaved_op(&mut s, op2);
    let p2 = s.encrypt_message(src, &m2, pi);
    check_pair_distinct();
    match (&p1, &p2) {
        (Ok(p1), Ok(p2)) => unsafe {
            assert!(p1.header.message_nonce == ENC_LOG[0].nonce, "wire nonce is the AEAD nonce");
            assert!(p2.header.message_nonce == ENC_LOG[1].nonce, "wire nonce is the AEAD nonce");
        },
        _ => assert!(false, "encrypt_message failed although the AEAD succeeded"),
    }
    std::mem::forget((p1, p2));
    std::mem::forget(s);
}

macro_rules! seq_harness {
    ($($name:ident, $a:expr, $b:expr;)*) => {$(
        #[kani::proof]
        #[kani::unwind(82)]
        #[kani::stub(crate::handler::crypto::encrypt_message, stub_encrypt)]
        #[kani::stub(crate::handler::crypto::decrypt_message, stub_decrypt)]
        #[kani::stub(rand::random, stub_random)]
        fn $name() { nonce_unique_seq($a, $b) }
    )*};
}
seq_harness! {
    c19_seq_consecutive, 0, 0;
    c19_seq_rekey, 1, 0;
    c19_seq_decrypt_current, 2, 0;
    c19_seq_decrypt_old_rotates, 3, 0;
    c19_seq_decrypt_rejected, 4, 0;
    c19_seq_rekey_then_rotate_back, 1, 3;
    c19_seq_rekey_then_rejected, 1, 4;
    c19_seq_rekey_twice, 1, 1;
    c19_seq_rotate_then_rekey, 3, 1;
}

/// Inductive form (covers histories of any length): operations other than encryption leave the
/// state the nonce is derived from untouched, and every encryption moves it forward by one.
fn counter_step(op: u8) {
    let mut s = any_session(0);
    let c0 = s.counter;
    interleaved_op(&mut s, op);
    assert!(s.counter == c0, "message counter changed by an operation other than encryption");
    std::mem::forget(s);
}
macro_rules! step_harness {
    ($($name:ident, $a:expr;)*) => {$(
        #[kani::proof]
        #[kani::unwind(82)]
        #[kani::stub(crate::handler::crypto::decrypt_message, stub_decrypt)]
        #[kani::stub(rand::random, stub_random)]
        fn $name() { counter_step($a) }
    )*};
}
step_harness! {
    c19_counter_kept_by_rekey, 1;
    c19_counter_kept_by_decrypt_current, 2;
    c19_counter_kept_by_decrypt_old, 3;
    c19_counter_kept_by_decrypt_rejected, 4;
}

#[kani::proof]
#[kani::unwind(82)]
#[kani::stub(crate::handler::crypto::encrypt_message, stub_encrypt)]
#[kani::stub(rand::random, stub_random)]
fn c19_counter_advances_and_prefixes_nonce() {
    let mut s = any_session(1);
    let c0 = s.counter;
    let m: [u8; 2] = kani::any();
    let p = s.encrypt_message(any_node_id(), &m, proto());
    assert!(s.counter == c0 + 1, "each encryption advances the counter by one");
    unsafe {
        assert!(ENC_N == 1);
        let n = ENC_LOG[0].nonce;
        assert!(n[0..4] == (c0 + 1).to_be_bytes(), "nonce starts with the advanced counter");
    }
    std::mem::forget(p);
    std::mem::forget(s);
}

// ---------------------------------------------------------------------------------------------
// C02 (c): encrypt_message authenticates exactly iv || header of the packet it returns, under the
//          session's current encryption key, and returns the AEAD output as the body
// ---------------------------------------------------------------------------------------------
#[kani::proof]
#[kani::unwind(82)]
#[kani::stub(crate::handler::crypto::encrypt_message, stub_encrypt)]
#[kani::stub(rand::random, stub_random)]
fn c02_encrypt_binds_header() {
    let mut s = any_session(2);
    let key_before = s.keys.encryption_key;
    let src = any_node_id();
    let pi = proto();
    let m: [u8; 3] = kani::any();
    let k: usize = kani::any();
    kani::assume(k < AAD_CAP);
    let p = match s.encrypt_message(src, &m, pi) {
        Ok(p) => p,
        Err(_) => {
            assert!(false);
            return;
        }
    };
    unsafe {
        assert!(ENC_N == 1);
        let c = ENC_LOG[0];
        assert!(c.key == key_before, "encrypts under the session's current encryption key");
        assert!(c.msg_len == 3 && c.msg0 == m[0], "plaintext handed over unchanged");
        // expected associated data: iv || protocol-id || version || flag 0 || nonce || authsize 32 || src id
        assert!(c.aad_len == 16 + 23 + 32);
        let iv = p.iv.to_be_bytes();
        let want: u8 = if k < 16 {
            iv[k]
        } else if k < 22 {
            pi.protocol_id[k - 16]
        } else if k < 24 {
            pi.protocol_version[k - 22]
        } else if k == 24 {
            0
        } else if k < 37 {
            p.header.message_nonce[k - 25]
        } else if k == 37 {
            0
        } else if k == 38 {
            32
        } else if k < 71 {
            src.raw()[k - 39]
        } else {
            0
        };
        if k < 71 {
            assert!(c.aad[k] == want, "associated data is iv || header of the emitted packet");
        }
        assert!(p.header.message_nonce == c.nonce);
        assert!(p.message.len() == 3 + 16);
    }
    assert!(matches!(p.header.kind, PacketKind::Message { src_id } if src_id == src));
    assert!(p.header.protocol_identity == pi);
    std::mem::forget(p);
    std::mem::forget(s);
}

// ---------------------------------------------------------------------------------------------
// C02 (b): decrypt_message hands exactly (nonce, ciphertext, aad) to the AEAD, first under the
//          current decryption key, then (only after failure) under the old one; Ok only if the
//          AEAD accepted; keys rotate only on a successful old-key decryption
// ---------------------------------------------------------------------------------------------
fn decrypt_uses_exactly_what_was_received(ok0: bool, ok1: bool) {
    let mut s = any_session(0);
    let (k_cur, k_old) = (s.keys.decryption_key, s.old_keys.as_ref().map(|k| k.decryption_key));
    let (e_cur, e_old) = (s.keys.encryption_key, s.old_keys.as_ref().map(|k| k.encryption_key));
    let had_old = s.old_keys.is_some();
    unsafe {
        DEC_OK = [ok0, ok1, false, false];
    }
    let nonce: [u8; 12] = kani::any();
    let ct: [u8; 20] = kani::any();
    let aad: [u8; 71] = kani::any();
    let k: usize = kani::any();
    kani::assume(k < 71);
    let r = s.decrypt_message(nonce, &ct, &aad);
    unsafe {
        assert!(DEC_N >= 1);
        let c0 = DEC_LOG[0];
        assert!(c0.key == k_cur, "first attempt uses the current decryption key");
        assert!(c0.nonce == nonce && c0.aad_len == 71 && c0.aad[k] == aad[k], "nonce and aad passed unchanged");
        assert!(c0.msg_len == 20 && c0.msg0 == ct[0], "ciphertext passed unchanged");
        if ok0 {
            assert!(DEC_N == 1);
            assert!(r.is_ok(), "accepted by the current key: delivered");
            assert!(s.keys.decryption_key == k_cur && s.keys.encryption_key == e_cur, "no rotation");
        } else if had_old {
            kani::cover!(true, "old key tried");
            assert!(DEC_N == 2);
            let c1 = DEC_LOG[1];
            assert!(Some(c1.key) == k_old, "second attempt uses the old decryption key");
            assert!(c1.nonce == nonce && c1.aad_len == 71 && c1.aad[k] == aad[k], "nonce and aad passed unchanged");
            assert!(c1.msg_len == 20 && c1.msg0 == ct[0], "ciphertext passed unchanged");
            assert!(r.is_ok() == ok1, "delivered iff the AEAD accepted");
            if ok1 {
                assert!(Some(s.keys.decryption_key) == k_old && Some(s.keys.encryption_key) == e_old, "rotated");
                assert!(s.old_keys.as_ref().map(|k| k.decryption_key) == Some(k_cur));
            } else {
                assert!(s.keys.decryption_key == k_cur && s.keys.encryption_key == e_cur, "no rotation on failure");
            }
        } else {
            kani::cover!(true, "no old key");
            assert!(DEC_N == 1);
            assert!(r.is_err(), "rejected by the only key: not delivered");
            assert!(s.keys.decryption_key == k_cur && s.keys.encryption_key == e_cur);
        }
    }
    std::mem::forget(r);
    std::mem::forget(s);
}
macro_rules! dec_harness {
    ($($name:ident, $a:expr, $b:expr;)*) => {$(
        #[kani::proof]
        #[kani::unwind(82)]
        #[kani::stub(crate::handler::crypto::decrypt_message, stub_decrypt)]
        #[kani::stub(rand::random, stub_random)]
        fn $name() { decrypt_uses_exactly_what_was_received($a, $b) }
    )*};
}
dec_harness! {
    c02_decrypt_current_accepts, true, false;
    c02_decrypt_old_accepts, false, true;
    c02_decrypt_both_reject, false, false;
}

/// Vacuity twin.
#[kani::proof]
#[kani::unwind(82)]
#[kani::stub(crate::handler::crypto::encrypt_message, stub_encrypt)]
#[kani::stub(rand::random, stub_random)]
fn c19_twin_must_fail() {
    let mut s = any_session(2);
    let m: [u8; 2] = kani::any();
    let p = s.encrypt_message(any_node_id(), &m, proto());
    std::mem::forget(p);
    std::mem::forget(s);
    assert!(false, "twin");
}
