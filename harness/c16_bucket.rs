//! C16 bucket-level harnesses — child module of `crate::kbucket::bucket`.  K = 4, bucket limit 2.
//! Same instantiation idea as c16_table.rs: value type `V` (subnet, host, seq) and a `Filter<V>` with
//! the counting rule of `ip_filter`.  Inductive step over "no /24 has more than LIMIT stored nodes in
//! this bucket" for every bucket operation that can add a node or change a record: insert,
//! update_value, apply_pending (promotion), remove (which promotes).
#![allow(dead_code, unused_imports, static_mut_refs)]
use super::*;
use crate::kbucket::filter::Filter;
use enr::k256::sha2::digest::generic_array::GenericArray;
use std::time::{Duration, Instant};

const K: usize = MAX_NODES_PER_BUCKET;
const LIMIT: usize = 2;

#[derive(Clone, Copy, PartialEq, Eq, Debug)]
struct V {
    /// like a record, a value names the node it belongs to: two different nodes never carry equal values
    id: u8,
    subnet: u8,
    host: u8,
    seq: u8,
}
#[derive(Clone)]
struct SubnetLimit(usize);
impl Filter<V> for SubnetLimit {
    fn filter(&self, v: &V, others: &mut dyn Iterator<Item = &V>) -> bool {
        if v.subnet != 0 {
            let mut count = 0;
            for o in others {
                if o == v {
                    continue;
                }
                if o.subnet == v.subnet {
                    count += 1;
                }
                if count >= self.0 {
                    return false;
                }
            }
        }
        true
    }
}
type B = KBucket<u8, V>;

static mut NOW_S: u64 = 1000;
fn instant(s: u64) -> Instant {
    unsafe { std::mem::zeroed::<Instant>() + Duration::new(s, 0) }
}
fn stub_now() -> Instant {
    unsafe { instant(NOW_S) }
}
fn key(b: u8) -> Key<u8> {
    let mut h = [0u8; 32];
    h[31] = b;
    Key::new_raw(b, *GenericArray::from_slice(&h))
}
fn st(conn: bool) -> NodeStatus {
    NodeStatus {
        state: if conn { ConnectionState::Connected } else { ConnectionState::Disconnected },
        direction: ConnectionDirection::Outgoing,
    }
}
fn any_v(id: u8) -> V {
    let v = V { id, subnet: kani::any(), host: kani::any(), seq: kani::any() };
    kani::assume(v.subnet <= 2);
    v
}

/// bucket of n nodes with keys 0..n-1 (pending node: key 100), arbitrary records within the limit
fn arbitrary_bucket(n: usize) -> (B, [V; K], Option<V>) {
    let vals = [any_v(0), any_v(1), any_v(2), any_v(3)];
    let d: usize = kani::any();
    kani::assume(d <= n);
    let mut s = 1;
    while s <= 2 {
        let mut c = 0;
        let mut i = 0;
        while i < K {
            if i < n && vals[i].subnet == s {
                c += 1;
            }
            i += 1;
        }
        kani::assume(c <= LIMIT);
        s += 1;
    }
    let mut b: B = KBucket::new(Duration::new(60, 0), K, Some(Box::new(SubnetLimit(LIMIT))));
    let mut i = 0;
    while i < K {
        if i < n {
            b.nodes.push(Node { key: key(i as u8), value: vals[i], status: st(i >= d) });
        }
        i += 1;
    }
    b.first_connected_pos = if d < n { Some(d) } else { None };
    let has_pending: bool = kani::any();
    let pv = any_v(100);
    if has_pending {
        let due: bool = kani::any();
        b.pending = Some(PendingNode {
            node: Node { key: key(100), value: pv, status: st(kani::any()) },
            replace: instant(if due { 10 } else { 5000 }),
        });
    }
    (b, vals, if has_pending { Some(pv) } else { None })
}

fn check_limit(b: &B) {
    let mut s = 1u8;
    while s <= 2 {
        let mut c = 0;
        let mut i = 0;
        while i < K {
            if i < b.nodes.len() && b.nodes[i].value.subnet == s {
                c += 1;
            }
            i += 1;
        }
        assert!(c <= LIMIT, "a bucket holds more nodes of one /24 than the bucket limit");
        s += 1;
    }
}

fn step_insert(n: usize, pending_key: bool) {
    let (mut b, _vals, _p) = arbitrary_bucket(n);
    let k = if pending_key { 100 } else { 50 };
    let v = any_v(k);
    let r = b.insert(Node { key: key(k), value: v, status: st(kani::any()) });
    kani::cover!(matches!(r, InsertResult::Inserted), "inserted");
    kani::cover!(matches!(r, InsertResult::FailedFilter), "refused by the bucket filter");
    check_limit(&b);
    if v.subnet == 0 {
        assert!(!matches!(r, InsertResult::FailedFilter), "a node without IPv4 address was refused by the filter");
    }
    std::mem::forget(r);
    std::mem::forget(b);
}
fn step_update_value(n: usize, which: usize) {
    let (mut b, _vals, _p) = arbitrary_bucket(n);
    let k = if which == K { 100 } else { which as u8 };
    let v = any_v(k);
    let r = b.update_value(&key(k), v);
    kani::cover!(matches!(r, UpdateResult::Updated), "record updated");
    kani::cover!(r.failed(), "record update refused");
    check_limit(&b);
    std::mem::forget(r);
    std::mem::forget(b);
}
fn step_apply_pending(n: usize) {
    let (mut b, _vals, _p) = arbitrary_bucket(n);
    let r = b.apply_pending();
    kani::cover!(r.is_some(), "pending node promoted");
    check_limit(&b);
    std::mem::forget(r);
    std::mem::forget(b);
}
fn step_remove(n: usize, which: usize) {
    let (mut b, _vals, _p) = arbitrary_bucket(n);
    let _ = b.remove(&key(which as u8));
    check_limit(&b);
    std::mem::forget(b);
}

macro_rules! harnesses {
    ($($name:ident => $body:expr;)*) => {$(
        #[kani::proof]
        #[kani::unwind(34)]
        #[kani::stub(std::time::Instant::now, stub_now)]
        fn $name() { $body }
    )*};
}
harnesses! {
    c16b_insert_n3 => step_insert(3, false);
    c16b_insert_pending_key_n3 => step_insert(3, true);
    c16b_insert_n4 => step_insert(4, false);
    c16b_update_value_n3 => step_update_value(3, 1);
    c16b_update_value_n4 => step_update_value(4, 0);
    c16b_update_value_pending => step_update_value(4, K);
    c16b_apply_pending_n3 => step_apply_pending(3);
    c16b_apply_pending_n4 => step_apply_pending(4);
    c16b_remove_n4 => step_remove(4, 1);
    c16b_twin_must_fail => { step_insert(3, false); assert!(false, "twin"); };
}
