#!/usr/bin/env python3
"""Self-test of the native side of the machinery (run by setup_cmd and by hand):
  * the container models in /verif/shims agree with std / hashlink / arrayvec (differential test),
  * every native replay driver compiles against /repo's current tree and reports no violation there.
Exit 0 iff all of that holds."""
import importlib, os, sys
sys.path.insert(0, os.path.dirname(os.path.abspath(__file__)))
from vlib import *

def main():
    dst, _ = fresh_copy("selftest")
    try:
        inj = []
        for p in ("c01", "c02", "c05", "c07", "c08", "c15", "c16", "c17", "c18", "c19", "c09", "c06"):
            try:
                m = importlib.import_module("props." + p)
            except Exception:
                continue
            for i in getattr(m, "INJ", []):
                if i not in inj:
                    inj.append(i)
        if ("src/kbucket.rs", "c08_replay.rs", "verif_replay_c08") not in inj:
            inj.append(("src/kbucket.rs", "c08_replay.rs", "verif_replay_c08"))
        src = native_copy(dst, inj)
        sub = Subst(src)
        sub.append("src/lib.rs", '#[cfg(test)]\n#[path = "%s/shims/mod.rs"]\npub(crate) mod verif_shims;\n#[cfg(test)]\n#[path = "%s/replay/shim_difftest.rs"]\nmod verif_shim_difftest;' % (VERIF, VERIF), "selftest")
        empty = os.path.join(dst, "empty.json")
        with open(empty, "w") as f:
            f.write('{"distances": [[0,0,0,1],[5,0,0,0]]}')
        rc, lines, out = native_test(src, "verif_", {"VERIF_REPLAY_FILE": empty})
        ok = True
        done = [l for l in lines if "VERIF-REPLAY done" in l]
        bad = [l for l in lines if "reproduced class=" in l and "not-reproduced" not in l]
        res = [l for l in out.splitlines() if l.startswith("test result")]
        print("\n".join(res[-1:]))
        print("replay drivers finished: %d, shim difftests: %d" % (len(done), len([l for l in out.splitlines() if "VERIF-SHIM" in l])))
        if rc != 0 or "error" in "".join(res[-1:]) or not res:
            print(out[-3000:])
            ok = False
        if bad:
            print("a replay driver reports a violation on this tree:\n" + "\n".join(bad[:5]))
            ok = False
        if len(done) < len(set(i[1] for i in inj)):
            print("not every replay driver ran to completion (%d of %d)" % (len(done), len(set(i[1] for i in inj))))
            ok = False
        return 0 if ok else 1
    finally:
        cleanup(dst)

if __name__ == "__main__":
    sys.exit(main())
