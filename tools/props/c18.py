"""C18  Inbound rate limiting (the GCRA limiter arithmetic: Limiter::{from_quota, allows, prune})."""
from vlib import *

PID = "C18"
LEVEL = "model_checking"
MOD = "socket::filter::rate_limiter::verif_c18::"
INJ = [("src/socket/filter/rate_limiter.rs", "c18_replay.rs", "verif_replay_c18")]

FUNCTIONS = ["socket::filter::rate_limiter::Limiter::{from_quota, allows, prune} (Key = u8)"]
BOUNDS = {"quick": "burst n concrete in {1,2} (gcra), {1} (prune); t and tau symbolic below 2^36 ns with t = floor(tau/n); 4 arrivals for 2 keys at arbitrary "
                   "non-decreasing times below 64 s, each optionally preceded by a prune at an arbitrary time in between; from_quota: period below 256 s "
                   "symbolic, burst in {0,1,3,10}; loops unwound 10",
          "thorough": "as quick plus burst 3 (gcra) and burst 2 (prune)"}
OUTSIDE = ["more than 4 arrivals per harness, more than 2 keys, bursts above 3",
           "periods below burst^2 ns, where the integer division tau / max_tokens lets t*n fall visibly short of tau (the relation t = floor(tau/n) is what is assumed)",
           "Filter::initial_pass / final_pass: ban and permit lists (process-global PERMIT_BAN_LIST), per-IP node counting, ban durations, metrics - "
           "std HashMap/HashSet behind a global lock, not modelled",
           "RateLimiter::allows / prune reading the real clock (init_time.elapsed()): the Limiter takes the time as an argument"]
ASSUMPTIONS = [
    "S-hash: FnvHashMap replaced by the association-list model (differentially tested)", "S-log, S-lock; pointer-validity checks off, panics/overflow/unwinding assertions on",
    "the limiter is built through from_quota and then given symbolic t, tau (a symbolic 128-bit division in from_quota itself exhausts memory)",
]
Q = [("c18_gcra_burst1", "burst + rate x window, and no refusal of conforming traffic (burst 1)", ["an arrival is refused"]),
     ("c18_gcra_burst2", "same (burst 2)", ["an arrival is refused", "burst of three at one instant"]),
     ("c18_prune_neutral_burst1", "interleaved prune calls change no decision (burst 1)", ["prune removed a key"]),
     ("c18_from_quota_burst0", "from_quota rejects a zero burst", []),
     ("c18_from_quota_burst1", "from_quota: tau = period, t = floor(tau/1); zero period rejected", []),
     ("c18_from_quota_burst3", "from_quota (burst 3)", []),
     ("c18_from_quota_burst10", "from_quota (burst 10)", [])]
T = [("c18_gcra_burst3", "burst + rate x window (burst 3)", ["an arrival is refused"]),
     ("c18_prune_neutral_burst2", "prune neutrality (burst 2)", ["prune removed a key"])]


def prepare(sub, tier):
    apply_common_substitutions(sub)
    sub.regex("src/socket/filter/rate_limiter.rs", r"^use fnv::FnvHashMap;", "use crate::verif_shims::hashmap::FnvHashMap;", "S-hash(fnv)")
    inject_harness(sub, "src/socket/filter/rate_limiter.rs", "c18_limiter.rs", "verif_c18")


def specs(tier, seed):
    L = Q + (T if tier == "thorough" else [])
    S = [dict(harness=MOD + n, obligation=o, bounds="see bounds", timeout=3000, mem_gb=10, covers=c) for n, o, c in L]
    S.append(dict(harness=MOD + "c18_twin_must_fail", obligation="vacuity twin", bounds="-", timeout=3000, mem_gb=10, kind="twin"))
    return S


def replay(cases, tier, dst):
    return replay_cases(cases, tier, dst, INJ, "verif_replay_c18", once=True)


def replay_file(path):
    return replay_file_generic(path, INJ, "verif_replay_c18")
