//! Native replay driver for C07 — `#[cfg(test)]` child of `crate::kbucket::bucket` in an unmodified
//! copy of /repo: real arrayvec, K = 16, real clock (pending deadlines set explicitly).
//! Deterministic operation sequences are run against a list-based reference model of the bucket
//! contract; the first divergence or broken invariant is reported.
use super::*;
use enr::k256::sha2::digest::generic_array::GenericArray;
use std::time::{Duration, Instant};

struct Lcg(u64);
impl Lcg {
    fn next(&mut self) -> u64 {
        self.0 = self.0.wrapping_mul(6364136223846793005).wrapping_add(1442695040888963407);
        self.0 >> 33
    }
}
fn key(b: u8) -> Key<u8> {
    let mut h = [0u8; 32];
    h[31] = b;
    Key::new_raw(b, *GenericArray::from_slice(&h))
}
fn st(conn: bool, inc: bool) -> NodeStatus {
    NodeStatus {
        state: if conn { ConnectionState::Connected } else { ConnectionState::Disconnected },
        direction: if inc { ConnectionDirection::Incoming } else { ConnectionDirection::Outgoing },
    }
}
#[derive(Clone, Debug, PartialEq)]
struct N {
    k: u8,
    v: u8,
    conn: bool,
    inc: bool,
}
#[derive(Clone, Debug)]
struct Model {
    nodes: Vec<N>,
    pending: Option<(N, bool)>, // (node, due)
    max_incoming: usize,
}
const KK: usize = MAX_NODES_PER_BUCKET;
impl Model {
    fn incoming(&self) -> usize {
        self.nodes.iter().filter(|n| n.conn && n.inc).count()
    }
    fn place(&mut self, n: N) {
        if n.conn {
            self.nodes.push(n);
        } else {
            let d = self.nodes.iter().filter(|x| !x.conn).count();
            self.nodes.insert(d, n);
        }
    }
    /// returns 0 inserted, 1 pending, 2 refused
    fn insert(&mut self, n: N) -> u8 {
        if self.nodes.iter().any(|x| x.k == n.k) {
            return 2;
        }
        if n.conn {
            if n.inc && self.incoming() >= self.max_incoming {
                return 2;
            }
            if self.nodes.len() == KK {
                if self.nodes[0].conn || self.pending.is_some() {
                    return 2;
                }
                self.pending = Some((n, false));
                return 1;
            }
        } else if self.nodes.len() == KK {
            return 2;
        }
        if self.pending.as_ref().map(|p| p.0.k == n.k).unwrap_or(false) {
            self.pending = None;
        }
        self.place(n);
        0
    }
    fn apply_pending(&mut self) {
        if let Some((p, due)) = self.pending.clone() {
            if !due {
                return;
            }
            self.pending = None;
            let ok_inc = !(p.conn && p.inc && self.incoming() >= self.max_incoming);
            if self.nodes.len() == KK {
                if self.nodes[0].conn || !ok_inc {
                    return;
                }
                self.nodes.remove(0);
                self.place(p);
            } else if ok_inc {
                self.place(p);
            }
        }
    }
    fn update_status(&mut self, k: u8, conn: bool, dir: Option<bool>) {
        if let Some(i) = self.nodes.iter().position(|x| x.k == k) {
            let mut n = self.nodes.remove(i);
            n.conn = conn;
            if let Some(d) = dir {
                n.inc = d;
            }
            if i == 0 && conn {
                self.pending = None;
            }
            if n.conn && n.inc && self.incoming() >= self.max_incoming {
                return; // removed
            }
            self.place(n);
        } else if let Some((p, _)) = self.pending.as_mut() {
            if p.k == k {
                p.conn = conn;
                if let Some(d) = dir {
                    p.inc = d;
                }
            }
        }
    }
    fn update_value(&mut self, k: u8, v: u8) {
        if let Some(n) = self.nodes.iter_mut().find(|x| x.k == k) {
            n.v = v;
        } else if let Some((p, _)) = self.pending.as_mut() {
            if p.k == k {
                p.v = v;
            }
        }
    }
    fn remove(&mut self, k: u8) {
        if let Some(i) = self.nodes.iter().position(|x| x.k == k) {
            self.nodes.remove(i);
            self.apply_pending();
        }
    }
}

fn snapshot(b: &KBucket<u8, u8>) -> (Vec<N>, Option<N>) {
    let nodes = b
        .iter()
        .map(|n| N { k: *n.key.preimage(), v: n.value, conn: n.status.is_connected(), inc: n.status.is_incoming() })
        .collect();
    let p = b.pending().map(|p| N {
        k: *p.node.key.preimage(),
        v: *p.value(),
        conn: p.status().is_connected(),
        inc: p.status().is_incoming(),
    });
    (nodes, p)
}

fn invariant(b: &KBucket<u8, u8>, max_incoming: usize) -> Option<&'static str> {
    let (nodes, p) = snapshot(b);
    if nodes.len() > KK {
        return Some("bucket-holds-more-than-K");
    }
    for i in 0..nodes.len() {
        for j in i + 1..nodes.len() {
            if nodes[i].k == nodes[j].k {
                return Some("node-id-twice-in-bucket");
            }
        }
        if let Some(p) = &p {
            if p.k == nodes[i].k {
                return Some("node-id-in-bucket-and-pending-slot");
            }
        }
        if i + 1 < nodes.len() && nodes[i].conn && !nodes[i + 1].conn {
            return Some("connected-before-disconnected");
        }
    }
    let first = nodes.iter().position(|n| n.conn);
    if first != b.first_connected_pos {
        return Some("first-connected-pos-wrong");
    }
    if nodes.iter().filter(|n| n.conn && n.inc).count() > max_incoming {
        return Some("incoming-limit-exceeded");
    }
    None
}

#[test]
fn verif_replay_c07_bucket() {
    let mut bad = 0;
    'outer: for seed in 0..1500u64 {
        let mut r = Lcg(seed * 2654435761 + 17);
        let max_incoming = match seed % 4 {
            0 => KK,
            1 => 0,
            2 => 2,
            _ => (r.next() as usize) % (KK + 1),
        };
        let mut b: KBucket<u8, u8> = KBucket::new(Duration::from_secs(3600), max_incoming, None);
        let mut m = Model { nodes: vec![], pending: None, max_incoming };
        let keyspace = (KK + 4) as u64;
        for step in 0..140 {
            let k = (r.next() % keyspace) as u8;
            let v = (r.next() % 250) as u8;
            let conn = r.next() % 3 != 0;
            let inc = r.next() % 3 == 0;
            let op = r.next() % 12;
            let opname;
            match op {
                0..=4 => {
                    opname = "insert";
                    let _ = b.insert(Node { key: key(k), value: v, status: st(conn, inc) });
                    m.insert(N { k, v, conn, inc });
                }
                5 | 6 => {
                    opname = "update_status";
                    let dir = if r.next() % 2 == 0 { Some(inc) } else { None };
                    let _ = b.update_status(
                        &key(k),
                        st(conn, false).state,
                        dir.map(|d| if d { ConnectionDirection::Incoming } else { ConnectionDirection::Outgoing }),
                    );
                    m.update_status(k, conn, dir);
                }
                7 => {
                    opname = "update_value";
                    let _ = b.update_value(&key(k), v);
                    m.update_value(k, v);
                }
                8 => {
                    opname = "remove";
                    let _ = b.remove(&key(k));
                    m.remove(k);
                }
                9 => {
                    opname = "pending-becomes-due";
                    if let Some(p) = b.pending_mut() {
                        p.set_ready_at(Instant::now() - Duration::from_secs(1));
                    }
                    if let Some(p) = m.pending.as_mut() {
                        p.1 = true;
                    }
                }
                10 => {
                    opname = "update_pending";
                    b.update_pending(st(conn, inc));
                    if let Some(p) = m.pending.as_mut() {
                        p.0.conn = conn;
                        p.0.inc = inc;
                    }
                }
                _ => {
                    opname = "apply_pending";
                    let _ = b.apply_pending();
                    m.apply_pending();
                }
            }
            if let Some(why) = invariant(&b, max_incoming) {
                bad += 1;
                println!("VERIF-REPLAY reproduced class={} seed={} step={} after={}", why, seed, step, opname);
                break 'outer;
            }
            let (nodes, p) = snapshot(&b);
            if nodes != m.nodes || p != m.pending.as_ref().map(|x| x.0.clone()) {
                bad += 1;
                println!(
                    "VERIF-REPLAY reproduced class=bucket-diverges-from-contract-after-{} seed={} step={} got={:?} pending={:?} want={:?} pending={:?}",
                    opname, seed, step, nodes.iter().map(|n| (n.k, n.conn)).collect::<Vec<_>>(), p.as_ref().map(|n| n.k),
                    m.nodes.iter().map(|n| (n.k, n.conn)).collect::<Vec<_>>(), m.pending.as_ref().map(|x| x.0.k)
                );
                break 'outer;
            }
        }
    }
    println!("VERIF-REPLAY done bad={}", bad);
}
