//! S-ctr: the AES-128-CTR stream cipher used for header masking, modelled as XOR with a keystream
//! that is a function of (key, iv) only.  Two cipher objects created with equal (key, iv) produce the
//! same stream; everything about AES itself is abstracted away.  The harness chooses the stream:
//! `STREAM_A` belongs to the first (key, iv) pair seen, `STREAM_B` to any other pair.
#![allow(static_mut_refs)]
use aes::cipher::generic_array::{typenum::U16, GenericArray};

pub const STREAM_LEN: usize = 160;
pub static mut STREAM_A: [u8; STREAM_LEN] = [0; STREAM_LEN];
pub static mut STREAM_B: [u8; STREAM_LEN] = [0; STREAM_LEN];
static mut FIRST: Option<([u8; 16], [u8; 16])> = None;
/// what the code keyed its ciphers with (for the "keyed with the first 16 bytes of the id" obligation)
pub static mut LAST_KEY: [u8; 16] = [0; 16];
pub static mut LAST_IV: [u8; 16] = [0; 16];
pub static mut CREATED: usize = 0;

pub struct SymCtr {
    first: bool,
    pos: usize,
}

impl SymCtr {
    pub fn new(key: &GenericArray<u8, U16>, iv: &GenericArray<u8, U16>) -> Self {
        let mut k = [0u8; 16];
        let mut v = [0u8; 16];
        let mut i = 0;
        while i < 16 {
            k[i] = key[i];
            v[i] = iv[i];
            i += 1;
        }
        unsafe {
            LAST_KEY = k;
            LAST_IV = v;
            CREATED += 1;
            let first = match FIRST {
                None => {
                    FIRST = Some((k, v));
                    true
                }
                Some((k0, v0)) => k0 == k && v0 == v,
            };
            SymCtr { first, pos: 0 }
        }
    }
    pub fn apply_keystream(&mut self, buf: &mut [u8]) {
        let mut i = 0;
        while i < buf.len() {
            let p = self.pos + i;
            assert!(p < STREAM_LEN, "keystream model exhausted: outside the bound of this harness");
            unsafe {
                buf[i] ^= if self.first { STREAM_A[p] } else { STREAM_B[p] };
            }
            i += 1;
        }
        self.pos += buf.len();
    }
}
