//! Native replay driver for C20 — `#[cfg(test)]` child of `crate::service` in an unmodified copy of
//! /repo: a real tokio unbounded channel stands for the handler.
use super::*;
use std::net::SocketAddr;

fn talk(tx: mpsc::UnboundedSender<HandlerIn>, id: u8) -> (TalkRequest, NodeId, SocketAddr) {
    let node_id = NodeId::new(&[id; 32]);
    let socket_addr: SocketAddr = "10.0.0.7:31337".parse().unwrap();
    (
        TalkRequest { id: RequestId(vec![id, 1]), node_address: NodeAddress { socket_addr, node_id }, protocol: b"p".to_vec(), body: b"b".to_vec(), sender: Some(tx) },
        node_id,
        socket_addr,
    )
}
fn drain(rx: &mut mpsc::UnboundedReceiver<HandlerIn>) -> Vec<(NodeId, SocketAddr, Vec<u8>, Vec<u8>)> {
    let mut out = Vec::new();
    while let Ok(m) = rx.try_recv() {
        if let HandlerIn::Response(to, r) = m {
            if let ResponseBody::Talk { response } = r.body {
                out.push((to.node_id, to.socket_addr, r.id.0.clone(), response));
            }
        }
    }
    out
}

#[test]
fn verif_replay_c20_talk() {
    let mut bad = 0;
    // respond: exactly one response, same id, same address, the payload
    {
        let (tx, mut rx) = mpsc::unbounded_channel();
        let (req, nid, addr) = talk(tx, 3);
        let r = req.respond(vec![9, 9]);
        let got = drain(&mut rx);
        if r.is_err() || got != vec![(nid, addr, vec![3, 1], vec![9, 9])] {
            bad += 1;
            println!("VERIF-REPLAY reproduced class=respond-does-not-send-exactly-one-matching-response got={}", got.len());
        }
    }
    // drop: exactly one empty response
    {
        let (tx, mut rx) = mpsc::unbounded_channel();
        let (req, nid, addr) = talk(tx, 4);
        drop(req);
        let got = drain(&mut rx);
        if got != vec![(nid, addr, vec![4, 1], vec![])] {
            bad += 1;
            println!("VERIF-REPLAY reproduced class=drop-does-not-send-exactly-one-empty-response got={}", got.len());
        }
    }
    // after shutdown: respond returns an error, drop does not panic
    {
        let (tx, rx) = mpsc::unbounded_channel();
        let (req, _, _) = talk(tx.clone(), 5);
        let (req2, _, _) = talk(tx, 6);
        drop(rx);
        if !matches!(req.respond(vec![1]), Err(ResponseError::ChannelClosed)) {
            bad += 1;
            println!("VERIF-REPLAY reproduced class=respond-after-shutdown-not-an-error");
        }
        if std::panic::catch_unwind(std::panic::AssertUnwindSafe(move || drop(req2))).is_err() {
            bad += 1;
            println!("VERIF-REPLAY reproduced class=drop-after-shutdown-panics");
        }
    }
    println!("VERIF-REPLAY done bad={}", bad);
}
