//! C16 kernel — child module of `crate::kbucket::filter`: the /24 counting rule itself.
#![allow(dead_code, unused_imports)]
use super::*;
use crate::verif_shims::enr_mirror::*;
use enr::NodeId;

fn id(b: u8) -> NodeId {
    let mut x = [0u8; 32];
    x[31] = b;
    NodeId::new(&x)
}
fn any_record(i: u8) -> (crate::Enr, Option<[u8; 4]>) {
    let has_ip: bool = kani::any();
    let ip: [u8; 4] = kani::any();
    let g = Ghost { key: KEY_SECP, udp4: None, udp6: None, ip4_only: if has_ip { Some(ip) } else { None } };
    (mirror_enr(kani::any(), id(i), g), if has_ip { Some(ip) } else { None })
}

/// ip_filter(v, others, L) is false iff v has an IPv4 address and at least L of the other values
/// (values equal to v do not count) share its /24.
fn kernel(n: usize) {
    let limit: usize = kani::any();
    kani::assume(limit >= 1 && limit <= 4);
    let (v, vip) = any_record(0);
    let (o1, ip1) = any_record(1);
    let (o2, ip2) = any_record(2);
    let (o3, ip3) = any_record(3);
    let others = [&o1, &o2, &o3];
    let ips = [ip1, ip2, ip3];
    let mut same = 0;
    let mut i = 0;
    while i < 3 {
        if i < n {
            if let (Some(a), Some(b)) = (vip, ips[i]) {
                if a[0] == b[0] && a[1] == b[1] && a[2] == b[2] {
                    same += 1;
                }
            }
        }
        i += 1;
    }
    let got = ip_filter(&v, &mut others[..n].iter().copied(), limit);
    kani::cover!(!got, "filter refuses");
    kani::cover!(got && same > 0, "filter admits below the limit");
    assert!(got == !(vip.is_some() && same >= limit), "/24 counting rule");
    std::mem::forget((v, o1, o2, o3));
}

#[kani::proof]
#[kani::unwind(34)]
#[kani::stub(enr::Enr::ip4, stub_ip4)]
fn c16_ip_filter_kernel_n3() {
    kernel(3)
}
#[kani::proof]
#[kani::unwind(34)]
#[kani::stub(enr::Enr::ip4, stub_ip4)]
fn c16_ip_filter_kernel_n1() {
    kernel(1)
}
