"""C17  External address is updated only by a clear majority (the vote counter IpVote)."""
from vlib import *

PID = "C17"
LEVEL = "model_checking"
MOD = "service::ip_vote::verif_c17::"
INJ = [("src/service/ip_vote.rs", "c17_replay.rs", "verif_replay_c17")]

FUNCTIONS = ["service::ip_vote::IpVote::{new, insert, majority, has_minimum_threshold, clear_old_votes, filter_stale_find_most_frequent}"]
BOUNDS = {"quick": "vote tables of N = 2..5 IPv4 votes (N concrete per harness) from distinct voters, in every table (= iteration) order, addresses "
                   "drawn from 3 arbitrary distinct sockets, every expiry time and current time below 2^40 s, minimum 2..4; insert from tables of 1 and 3 "
                   "votes with an existing or a new voter; f64 rounding bit-precise; loops unwound 10 (container model capacity 8), 32-byte compares 34",
          "thorough": "as quick plus N = 6"}
OUTSIDE = ["tables of more than 5 (thorough: 6) votes; IPv6 votes (same generic function, second instantiation)",
           "which PONGs are admitted as votes, the record rewrite, sequence bump, signature and event: Service::handle_ip_vote_from_pong is async "
           "Service code that Kani cannot compile",
           "the clear-majority margin is taken to be the implementation's 30 % (a rival must stay below round(0.7 * winner))"]
ASSUMPTIONS = [
    "S-hash: std HashMap / FnvHashMap replaced by the association-list model /verif/shims/hashmap.rs over an in-struct fixed-capacity list "
    "(differentially tested against std); iteration order = table order, which the harness leaves arbitrary",
    "S-clock: Instant::now replaced by a harness-controlled instant", "S-log, S-lock; pointer-validity checks off, panics/overflow/unwinding assertions on",
    "harness and models avoid symbolic indices into arrays of structs (Kani/CBMC defect, DESIGN.md appendix B)",
]
H = [("c17_majority_n2", "majority() = the address with >= minimum unexpired votes leading every rival by the margin, else None (2 votes)", ["a clear majority exists"]),
     ("c17_majority_n3", "majority (3 votes)", ["a clear majority exists", "threshold reached but a rival is within the margin"]),
     ("c17_majority_n4", "majority (4 votes)", ["a clear majority exists", "threshold reached but a rival is within the margin"]),
     ("c17_majority_n5", "majority (5 votes)", ["a clear majority exists", "threshold reached but a rival is within the margin"]),
     ("c17_insert_n1", "insert: one vote per voter, latest address and fresh lifetime, others untouched (1 vote)", []),
     ("c17_insert_n3", "insert (3 votes)", ["voter changes its vote"]),
     ("c17_threshold_n3", "has_minimum_threshold counts unexpired votes only", [])]


def prepare(sub, tier):
    apply_common_substitutions(sub)
    sub.regex("src/service/ip_vote.rs", r"^use fnv::FnvHashMap;", "use crate::verif_shims::hashmap::{FnvHashMap, HashMap};", "S-hash(fnv)")
    sub.regex("src/service/ip_vote.rs", r"^(\s*)collections::HashMap,\n", "", "S-hash(std)")
    inject_harness(sub, "src/service/ip_vote.rs", "c17_ipvote.rs", "verif_c17")


def specs(tier, seed):
    # loops over the model containers are bounded by its capacity (8); only the 32-byte id compare needs 33 iterations
    US = ["memcmp.0:34"]
    S = [dict(harness=MOD + n, obligation=o, bounds="see bounds", timeout=2400, mem_gb=10, covers=c, unwindset=US) for n, o, c in H]
    if tier == "thorough":
        S.append(dict(harness=MOD + "c17_majority_n6", obligation="majority (6 votes)", bounds="see bounds", timeout=6000, mem_gb=16,
                      covers=["a clear majority exists"], unwindset=US))
    S.append(dict(harness=MOD + "c17_twin_must_fail", obligation="vacuity twin", bounds="-", timeout=2400, mem_gb=10, kind="twin", unwindset=US))
    return S


def replay(cases, tier, dst):
    return replay_cases(cases, tier, dst, INJ, "verif_replay_c17", once=True)


def replay_file(path):
    return replay_file_generic(path, INJ, "verif_replay_c17")
