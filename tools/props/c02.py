"""C02  Delivered messages are authentic and untampered (what the session hands to the AEAD; what decode authenticates)."""
from vlib import *

PID = "C02"
LEVEL = "model_checking"
VALIDATE_STUBS = True
MOD = "handler::session::verif_c19::"
INJ = [("src/handler/session.rs", "c19_replay.rs", "verif_replay_c19")]

FUNCTIONS = ["handler::session::Session::{encrypt_message, decrypt_message}", "packet::PacketHeader::encode, PacketKind::encode (Message)"]
BOUNDS = {"quick": "any Session state; (b) 20-byte ciphertext, 71-byte associated data, all contents symbolic, the three AEAD outcomes "
                   "(current key accepts / old key accepts / both reject) one harness each; (c) 3-byte plaintext, all header fields symbolic; loops unwound 82"}
BOUNDS["thorough"] = BOUNDS["quick"]
OUTSIDE = ["AES-128-GCM itself (assumed to be a secure AEAD: a changed key, nonce, associated data or ciphertext does not authenticate)",
           "session lookup by (source id, source address) and the session states in the async Handler (not compilable by Kani)",
           "ciphertexts / associated data of other lengths (the code under test has no length-dependent branch)"]
ASSUMPTIONS = [
    "S-aead: crypto::encrypt_message / decrypt_message replaced by a recording stub; the harness decides which call authenticates",
    "S-rng: rand::random returns an arbitrary value", "S-log, S-lock; pointer-validity checks off, panics/overflow/unwinding assertions on",
]


def prepare(sub, tier):
    apply_common_substitutions(sub)
    inject_harness(sub, "src/handler/session.rs", "c19_session.rs", "verif_c19")


def _dec(pb):
    return {"kani_any_values_in_call_order": [v if len(v) <= 16 else v[:16] + ["..."] for v in pb[:24]]}


def specs(tier, seed):
    S = []
    for n, ob in (("c02_decrypt_current_accepts", "decrypt: (nonce, ct, aad) reach the AEAD unchanged under the current key; accepted => delivered, no rotation"),
                  ("c02_decrypt_old_accepts", "decrypt: after rejection the same tuple is tried under the old key; accepted => delivered and keys rotate"),
                  ("c02_decrypt_both_reject", "decrypt: rejected by every key => not delivered, current keys unchanged")):
        S.append(dict(harness=MOD + n, obligation=ob, bounds="any session state, 20-byte ct, 71-byte aad", timeout=1200, mem_gb=8, decode=_dec,
                      covers=([] if n == "c02_decrypt_current_accepts" else ["old key tried", "no old key"])))
    S.append(dict(harness=MOD + "c02_encrypt_binds_header", obligation="encrypt: the associated data is iv || header of the packet returned, "
                  "the key is the session's encryption key, the body is the AEAD output", bounds="any session state, all header fields",
                  timeout=1200, mem_gb=8, decode=_dec))
    S.append(dict(harness=MOD + "c19_twin_must_fail", obligation="vacuity twin", bounds="-", timeout=1200, mem_gb=8, kind="twin"))
    return S


def replay(cases, tier, dst):
    return replay_cases(cases, tier, dst, INJ, "verif_replay_c02", once=True)


def replay_file(path):
    return replay_file_generic(path, INJ, "verif_replay_c02")
