"""C15  Sessions expire and the session cache is bounded (the time-stamped LRU cache holding the sessions)."""
from vlib import *

PID = "C15"
LEVEL = "model_checking"
MOD = "lru_time_cache::verif_c15::"
INJ = [("src/lru_time_cache.rs", "c15_replay.rs", "verif_replay_c15")]

FUNCTIONS = ["lru_time_cache::LruTimeCache::{new, insert, get, get_mut, peek, len, remove, remove_expired_values}"]
BOUNDS = {"quick": "inductive step: pre-state = any cache of n entries (n = 0..3 concrete per harness) with distinct u8 keys, any values, "
                   "any last-use times in recency order <= now, capacity n..3, ttl and all times arbitrary below 2^40 s; one operation "
                   "with arbitrary arguments; loops unwound 5.  Histories of any length follow by induction over the stated invariant "
                   "for caches of at most 3 entries"}
BOUNDS["thorough"] = BOUNDS["quick"]
OUTSIDE = ["caches with more than 3 entries (the code is size-generic; the model and the unwinding bound are not)",
           "the Handler's use of the cache (purge points, re-handshake on the wire): async code Kani cannot compile",
           "capacity None (unbounded) -- usize::MAX is just a larger bound"]
ASSUMPTIONS = [
    "S-hash: hashlink::LinkedHashMap replaced by the insertion-ordered association list of /verif/shims/linked.rs "
    "(insert of an existing key moves it to the back; front/pop_front address the oldest entry)",
    "S-clock: Instant::now replaced by a harness-controlled instant; the representation invariant encodes a monotone clock",
    "S-log, S-lock; pointer-validity checks off, panics/overflow/unwinding assertions on",
    "counterexamples are confirmed natively with the real hashlink map and real sleeps (ttl 60 ms)",
]

H = [("c15_get_n1", "get: live entry returned+refreshed, expired entry never handed out", ["lookup of an expired entry", "lookup of a live entry"]),
     ("c15_get_n2", "get (2 entries)", ["lookup of an expired entry", "lookup of a live entry"]),
     ("c15_get_n3", "get (3 entries)", ["lookup of an expired entry", "lookup of a live entry"]),
     ("c15_get_mut_n1", "get_mut", ["lookup of an expired entry", "lookup of a live entry"]),
     ("c15_get_mut_n2", "get_mut (2 entries)", ["lookup of an expired entry", "lookup of a live entry"]),
     ("c15_get_mut_n3", "get_mut (3 entries)", ["lookup of an expired entry", "lookup of a live entry"]),
     ("c15_peek_n2", "peek: read-only, same age rule", ["peek at an expired entry"]),
     ("c15_peek_n3", "peek (3 entries)", ["peek at an expired entry"]),
     ("c15_insert_n0", "insert into an empty cache", ["insert with room left"]),
     ("c15_insert_n1", "insert: len <= capacity, LRU evicted, replace keeps others", ["insert replaces an existing key", "insert into a full cache"]),
     ("c15_insert_n2", "insert (2 entries)", ["insert replaces an existing key", "insert into a full cache", "insert with room left"]),
     ("c15_insert_n3", "insert (3 entries)", ["insert replaces an existing key", "insert into a full cache"]),
     ("c15_remove_n2", "remove", []), ("c15_remove_n3", "remove (3 entries)", []),
     ("c15_purge_n1", "remove_expired_values drops and reports exactly the expired entries", []),
     ("c15_purge_n2", "purge (2 entries)", ["some but not all entries expired"]),
     ("c15_purge_n3", "purge (3 entries)", ["some but not all entries expired"])]


def prepare(sub, tier):
    apply_common_substitutions(sub)
    sub.regex("src/lru_time_cache.rs", r"\bhashlink::", "crate::verif_shims::", "S-hash(hashlink)")
    inject_harness(sub, "src/lru_time_cache.rs", "c15_cache.rs", "verif_c15")


def specs(tier, seed):
    S = [dict(harness=MOD + n, obligation=o, bounds="any cache state of that size", timeout=1500, mem_gb=8, covers=c, decode=None) for n, o, c in H]
    S.append(dict(harness=MOD + "c15_twin_must_fail", obligation="vacuity twin", bounds="-", timeout=1500, mem_gb=8, kind="twin"))
    return S


def replay(cases, tier, dst):
    return replay_cases(cases, tier, dst, INJ, "verif_replay_c15", once=True)


def replay_file(path):
    return replay_file_generic(path, INJ, "verif_replay_c15")
