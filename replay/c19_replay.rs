//! Native replay driver for C19 and C02(b),(c) — a `#[cfg(test)]` child of `crate::handler::session`
//! in an otherwise unmodified copy of /repo: real AES-GCM, real RNG, no stubs.
use super::*;
use crate::packet::{Packet, PacketKind, ProtocolIdentity};

fn keys(a: u8, b: u8) -> Keys {
    Keys {
        encryption_key: [a; 16],
        decryption_key: [b; 16],
    }
}

/// ops: 0 nothing, 1 re-key, 2 inbound accepted by current key, 3 inbound accepted by the old key
/// only, 4 inbound rejected by both.
fn apply(s: &mut Session, op: u8, fresh_tag: &mut u8) {
    match op {
        1 => {
            *fresh_tag += 1;
            s.update(Session::new(keys(0x40 + *fresh_tag, 0x80 + *fresh_tag)));
        }
        2 | 3 | 4 => {
            let nonce = [7u8; 12];
            let aad = [9u8; 20];
            let key = match op {
                2 => Some(s.keys.decryption_key),
                3 => s.old_keys.as_ref().map(|k| k.decryption_key),
                _ => None,
            };
            let ct = match key {
                Some(k) => crypto::encrypt_message(&k, nonce, b"hello", &aad).unwrap(),
                None => vec![0u8; 21],
            };
            let _ = s.decrypt_message(nonce, &ct, &aad);
        }
        _ => {}
    }
}

/// Runs `enc; ops..; enc` from one fixed initial state; returns (key, nonce) of both encryptions.
fn scenario(ops: &[u8]) -> Option<(([u8; 16], [u8; 12]), ([u8; 16], [u8; 12]))> {
    let mut s = Session::new(keys(1, 2));
    s.old_keys = Some(keys(3, 4));
    let src = NodeId::new(&[5u8; 32]);
    let pi = ProtocolIdentity::default();
    let k1 = s.keys.encryption_key;
    let p1 = s.encrypt_message(src, b"m1", pi).ok()?;
    let mut tag = 0u8;
    for &op in ops {
        apply(&mut s, op, &mut tag);
    }
    let k2 = s.keys.encryption_key;
    let p2 = s.encrypt_message(src, b"m2", pi).ok()?;
    Some(((k1, p1.header.message_nonce), (k2, p2.header.message_nonce)))
}

#[test]
fn verif_replay_c19_nonce() {
    let mut bad = 0;
    let mut seqs: Vec<Vec<u8>> = vec![vec![]];
    for a in 0..5u8 {
        seqs.push(vec![a]);
        for b in 0..5u8 {
            seqs.push(vec![a, b]);
            for c in 0..5u8 {
                seqs.push(vec![a, b, c]);
            }
        }
    }
    for ops in seqs {
        // which nonce bytes are deterministic? run the same scenario several times
        let runs: Vec<_> = (0..6).filter_map(|_| scenario(&ops)).collect();
        if runs.len() < 6 {
            continue;
        }
        let mut det = [true; 12];
        for r in &runs[1..] {
            for i in 0..12 {
                if r.0 .1[i] != runs[0].0 .1[i] || r.1 .1[i] != runs[0].1 .1[i] {
                    det[i] = false;
                }
            }
        }
        let ((k1, n1), (k2, n2)) = runs[0];
        if k1 != k2 {
            continue;
        }
        let full_equal = n1 == n2;
        let det_equal = (0..12).all(|i| !det[i] || n1[i] == n2[i]);
        if full_equal || det_equal {
            bad += 1;
            println!(
                "VERIF-REPLAY reproduced class=nonce-not-unique-under-one-key ops={:?} n1={:?} n2={:?} deterministic_bytes={:?} full_equal={}",
                ops, n1, n2, det, full_equal
            );
            break;
        }
    }
    println!("VERIF-REPLAY done bad={}", bad);
}

#[test]
fn verif_replay_c02_session() {
    let mut bad = 0;
    let src = NodeId::new(&[5u8; 32]);
    let pi = ProtocolIdentity::default();
    // (c) what encrypt_message emits must decrypt under its key with the emitted header as aad
    {
        let mut s = Session::new(keys(1, 2));
        let p = s.encrypt_message(src, b"payload", pi).unwrap();
        let aad = p.authenticated_data();
        match crypto::decrypt_message(&[1u8; 16], p.header.message_nonce, &p.message, &aad) {
            Ok(m) if m == b"payload" => {}
            _ => {
                bad += 1;
                println!("VERIF-REPLAY reproduced class=encrypt-does-not-authenticate-the-emitted-header");
            }
        }
        if !matches!(p.header.kind, PacketKind::Message { src_id } if src_id == src) || p.header.protocol_identity != pi {
            bad += 1;
            println!("VERIF-REPLAY reproduced class=encrypt-emits-wrong-header");
        }
    }
    // (b) decrypt_message accepts exactly (nonce, ct, aad) under current, then old key
    {
        let nonce = [7u8; 12];
        let aad: Vec<u8> = (0..71u8).collect();
        for which in 0..2 {
            let mk = || {
                let mut s = Session::new(keys(1, 2));
                s.old_keys = Some(keys(3, 4));
                s
            };
            let key = if which == 0 { [2u8; 16] } else { [4u8; 16] };
            let ct = crypto::encrypt_message(&key, nonce, b"payload", &aad).unwrap();
            let mut s = mk();
            match s.decrypt_message(nonce, &ct, &aad) {
                Ok(m) if m == b"payload" => {
                    let rotated = s.keys.decryption_key == [4u8; 16];
                    if rotated != (which == 1) {
                        bad += 1;
                        println!("VERIF-REPLAY reproduced class=wrong-key-rotation which={}", which);
                    }
                }
                _ => {
                    bad += 1;
                    println!("VERIF-REPLAY reproduced class=genuine-message-rejected which={}", which);
                }
            }
            // every single-bit flip of nonce / aad / ciphertext and every truncation must be rejected
            let mut tampered_ok = 0;
            for i in 0..12 * 8 {
                let mut n = nonce;
                n[i / 8] ^= 1 << (i % 8);
                if mk().decrypt_message(n, &ct, &aad).is_ok() {
                    tampered_ok += 1;
                }
            }
            for i in 0..aad.len() * 8 {
                let mut a = aad.clone();
                a[i / 8] ^= 1 << (i % 8);
                if mk().decrypt_message(nonce, &ct, &a).is_ok() {
                    tampered_ok += 1;
                }
            }
            for i in 0..ct.len() * 8 {
                let mut c = ct.clone();
                c[i / 8] ^= 1 << (i % 8);
                if mk().decrypt_message(nonce, &c, &aad).is_ok() {
                    tampered_ok += 1;
                }
            }
            for l in 0..ct.len() {
                if mk().decrypt_message(nonce, &ct[..l], &aad).is_ok() {
                    tampered_ok += 1;
                }
                if mk().decrypt_message(nonce, &ct, &aad[..l.min(aad.len() - 1)]).is_ok() {
                    tampered_ok += 1;
                }
            }
            if tampered_ok > 0 {
                bad += 1;
                println!("VERIF-REPLAY reproduced class=tampered-message-accepted which={} count={}", which, tampered_ok);
            }
        }
        // a message under an unrelated key must be rejected and must not change the current keys
        let ct = crypto::encrypt_message(&[9u8; 16], nonce, b"payload", &aad).unwrap();
        let mut s = Session::new(keys(1, 2));
        s.old_keys = Some(keys(3, 4));
        if s.decrypt_message(nonce, &ct, &aad).is_ok() || s.keys.decryption_key != [2u8; 16] {
            bad += 1;
            println!("VERIF-REPLAY reproduced class=foreign-key-message-accepted-or-keys-changed");
        }
    }
    println!("VERIF-REPLAY done bad={}", bad);
}
