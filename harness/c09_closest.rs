//! C09 / C10 harnesses for the plain lookup — child module of `crate::query_pool::peers::closest`
//! (`BTreeMap` replaced by the sorted-list model).  One *inductive step* per transition function from
//! an arbitrary query state satisfying the representation invariant
//!     candidate distances are pairwise distinct and match their keys; `num_waiting` = number of
//!     peers in `Waiting` state; `Iterating { no_progress }` has no_progress < parallelism,
//! with N candidates (concrete per harness) in arbitrary per-peer states, arbitrary deadlines,
//! parallelism 1..=3, num_results 1..=3, any progress stage, any current time.
#![allow(dead_code, unused_imports, static_mut_refs)]
use super::*;
use enr::k256::sha2::digest::generic_array::GenericArray;
use std::time::{Duration, Instant};

const N: usize = 4;

#[derive(Clone, Copy, PartialEq, Eq, Debug)]
struct Id(u8);
impl From<Id> for Key<Id> {
    fn from(id: Id) -> Key<Id> {
        let mut h = [0u8; 32];
        h[31] = id.0;
        Key::new_raw(id, *GenericArray::from_slice(&h))
    }
}
type Q = FindNodeQuery<Id>;

fn instant(s: u64) -> Instant {
    unsafe { std::mem::zeroed::<Instant>() + Duration::new(s, 0) }
}

#[derive(Clone, Copy, PartialEq, Eq)]
enum S {
    NotContacted,
    Waiting,
    Unresponsive,
    Failed,
    Succeeded,
}
fn code(s: &QueryPeerState) -> S {
    match s {
        QueryPeerState::NotContacted => S::NotContacted,
        QueryPeerState::Waiting(_) => S::Waiting,
        QueryPeerState::Unresponsive => S::Unresponsive,
        QueryPeerState::Failed => S::Failed,
        QueryPeerState::Succeeded => S::Succeeded,
    }
}
fn any_state() -> (S, u64) {
    let c: u8 = kani::any();
    kani::assume(c < 5);
    let deadline: u64 = kani::any();
    kani::assume(deadline < (1 << 30));
    (
        match c {
            0 => S::NotContacted,
            1 => S::Waiting,
            2 => S::Unresponsive,
            3 => S::Failed,
            _ => S::Succeeded,
        },
        deadline,
    )
}

struct Pre {
    n: usize,
    ids: [u8; N],
    st: [S; N],
    deadline: [u64; N],
    target: u8,
    parallelism: usize,
    num_results: usize,
    stalled: bool,
    finished: bool,
    num_waiting: usize,
    now: u64,
    dist: [Option<Distance>; N],
}
impl Pre {
    fn count(&self, s: S) -> usize {
        let mut c = 0;
        let mut i = 0;
        while i < N {
            if i < self.n && self.st[i] == s {
                c += 1;
            }
            i += 1;
        }
        c
    }
    fn index_of(&self, id: u8) -> Option<usize> {
        let mut i = 0;
        while i < N {
            if i < self.n && self.ids[i] == id {
                return Some(i);
            }
            i += 1;
        }
        None
    }
    fn capacity(&self) -> usize {
        if self.stalled {
            self.num_results
        } else {
            self.parallelism
        }
    }
}

fn arbitrary_query(n: usize) -> (Q, Pre) {
    let ids: [u8; N] = kani::any();
    let target: u8 = kani::any();
    let parallelism: usize = kani::any();
    let num_results: usize = kani::any();
    kani::assume(parallelism >= 1 && parallelism <= 3 && num_results >= 1 && num_results <= 3);
    let s0 = any_state();
    let s1 = any_state();
    let s2 = any_state();
    let s3 = any_state();
    let st = [s0.0, s1.0, s2.0, s3.0];
    let deadline = [s0.1, s1.1, s2.1, s3.1];
    // candidates are generated in increasing distance to the target (so they can be filed in order
    // without a sorted insertion at a symbolic position); this also makes the ids pairwise distinct
    let mut a = 0;
    while a + 1 < N {
        if a + 1 < n {
            kani::assume((ids[a] ^ target) < (ids[a + 1] ^ target));
        }
        a += 1;
    }
    let stage: u8 = kani::any();
    kani::assume(stage < 3);
    let no_progress: usize = kani::any();
    kani::assume(no_progress < parallelism);
    let now: u64 = kani::any();
    kani::assume(now < (1 << 30));
    let peer_timeout: u64 = kani::any();
    kani::assume(peer_timeout < (1 << 30));
    let config = FindNodeQueryConfig { parallelism, num_results, peer_timeout: Duration::new(peer_timeout, 0) };
    let mut q: Q = FindNodeQuery::with_config(config, Id(target).into(), std::iter::empty());
    let mut pre = Pre { n, ids, st, deadline, target, parallelism, num_results, stalled: stage == 1, finished: stage == 2, num_waiting: 0, now, dist: [None; N] };
    let mut i = 0;
    while i < N {
        if i < n {
            let key: Key<Id> = Id(ids[i]).into();
            let d = key.distance(&q.target_key);
            pre.dist[i] = Some(d);
            let state = match st[i] {
                S::NotContacted => QueryPeerState::NotContacted,
                S::Waiting => QueryPeerState::Waiting(instant(deadline[i])),
                S::Unresponsive => QueryPeerState::Unresponsive,
                S::Failed => QueryPeerState::Failed,
                S::Succeeded => QueryPeerState::Succeeded,
            };
            q.closest_peers.items.push((d, QueryPeer::new(key, state)));
        }
        i += 1;
    }
    pre.num_waiting = pre.count(S::Waiting);
    q.num_waiting = pre.num_waiting;
    q.progress = match stage {
        0 => QueryProgress::Iterating { no_progress },
        1 => QueryProgress::Stalled,
        _ => QueryProgress::Finished,
    };
    (q, pre)
}

/// One pass over the candidate map: post-state of every pre-state peer (None = not found), number of
/// candidates, number in flight, and whether the map is in strictly increasing key order.
struct Post {
    st: [Option<S>; N],
    count: usize,
    waiting: usize,
    not_contacted: usize,
    succeeded: usize,
    ordered: bool,
    keyed_by_own_distance: bool,
}
fn observe(q: &Q, pre: &Pre) -> Post {
    let mut o = Post { st: [None; N], count: 0, waiting: 0, not_contacted: 0, succeeded: 0, ordered: true, keyed_by_own_distance: true };
    let mut last: Option<Distance> = None;
    for (d, p) in q.closest_peers.iter() {
        o.count += 1;
        let s = code(&p.state);
        match s {
            S::Waiting => o.waiting += 1,
            S::NotContacted => o.not_contacted += 1,
            S::Succeeded => o.succeeded += 1,
            _ => {}
        }
        let id = p.key.preimage().0;
        if let Some(l) = last {
            if !(l < *d) {
                o.ordered = false;
            }
        }
        last = Some(*d);
        let mut i = 0;
        while i < N {
            if i < pre.n && pre.ids[i] == id {
                o.st[i] = Some(s);
                // still filed under its own distance to the target
                if Some(*d) != pre.dist[i] {
                    o.keyed_by_own_distance = false;
                }
            }
            i += 1;
        }
    }
    o
}

/// invariant + monotonicity of per-peer states w.r.t. the pre-state
fn check_invariant(q: &Q, pre: &Pre) -> Post {
    let o = observe(q, pre);
    assert!(o.keyed_by_own_distance, "candidate filed under a distance that is not its own");
    assert!(o.ordered, "candidates not in strictly increasing distance");
    assert!(q.num_waiting == o.waiting, "num_waiting out of sync with the peers in flight");
    assert!(o.count >= pre.n, "a candidate disappeared");
    let mut i = 0;
    while i < N {
        if i < pre.n {
            match o.st[i] {
                None => assert!(false, "a candidate disappeared"),
                Some(s) => {
                    if pre.st[i] != S::NotContacted {
                        assert!(s != S::NotContacted, "a peer that was already contacted is scheduled again");
                    }
                    if pre.st[i] == S::Failed || pre.st[i] == S::Succeeded {
                        assert!(s == pre.st[i], "a final per-peer state changed");
                    }
                }
            }
        }
        i += 1;
    }
    o
}
fn post_state(o: &Post, pre: &Pre, id: u8) -> Option<S> {
    let mut r = None;
    let mut i = 0;
    while i < N {
        if i < pre.n && pre.ids[i] == id {
            r = o.st[i];
        }
        i += 1;
    }
    r
}

// ---------------------------------------------------------------------------------------------
fn step_next(n: usize) {
    let (mut q, pre) = arbitrary_query(n);
    let r = q.next(instant(pre.now));
    let o = check_invariant(&q, &pre);
    if pre.finished {
        assert!(r == QueryState::Finished, "a finished lookup came back to life");
        assert!(matches!(q.progress, QueryProgress::Finished));
    }
    match &r {
        QueryState::Waiting(Some(p)) => {
            kani::cover!(true, "a new request is issued");
            // bounded parallelism: new requests only below the capacity of the current stage
            assert!(pre.num_waiting < pre.capacity(), "request issued although the lookup is at capacity");
            // never the same peer twice: only a peer that had not been contacted
            match pre.index_of(p.0) {
                Some(i) => assert!(pre.st[i] == S::NotContacted, "request sent to a peer that was already contacted"),
                None => assert!(false, "request sent to an unknown peer"),
            }
            assert!(post_state(&o, &pre, p.0) == Some(S::Waiting));
            // ... and the closest such peer
            let mut i = 0;
            while i < N {
                if i < pre.n && pre.st[i] == S::NotContacted && pre.ids[i] != p.0 {
                    assert!((p.0 ^ pre.target) < (pre.ids[i] ^ pre.target), "a farther peer was contacted before a closer one");
                }
                i += 1;
            }
        }
        QueryState::Waiting(None) => {
            kani::cover!(true, "waiting, nothing to contact");
            assert!(q.num_waiting > 0, "lookup idles although nothing is in flight");
        }
        QueryState::WaitingAtCapacity => {
            kani::cover!(true, "waiting at capacity");
            assert!(pre.num_waiting >= pre.capacity(), "reported at capacity below the capacity");
        }
        QueryState::Finished => {
            kani::cover!(!pre.finished, "lookup finishes");
            assert!(matches!(q.progress, QueryProgress::Finished));
            // completeness: finishing with fewer than num_results answers means every known candidate was contacted
            if !pre.finished && o.succeeded < pre.num_results {
                assert!(o.not_contacted == 0, "lookup finished with too few results while a candidate was never contacted");
                assert!(q.num_waiting == 0, "lookup finished with too few results while requests are in flight");
            }
        }
    }
    // `next` itself never turns a peer into a responder
    let mut i = 0;
    while i < N {
        if i < pre.n && pre.st[i] != S::Succeeded {
            assert!(o.st[i] != Some(S::Succeeded), "a peer counts as having answered without an answer");
        }
        i += 1;
    }
    std::mem::forget(q);
}

fn step_on_success(n: usize) {
    let (mut q, pre) = arbitrary_query(n);
    let who: u8 = kani::any();
    let r0: u8 = kani::any();
    let r1: u8 = kani::any();
    let m: usize = kani::any();
    kani::assume(m <= 2);
    let mut returned = Vec::with_capacity(2);
    if m >= 1 {
        returned.push(Id(r0));
    }
    if m >= 2 {
        returned.push(Id(r1));
    }
    let progress_before_finished = pre.finished;
    q.on_success(&Id(who), returned);
    let o = check_invariant(&q, &pre);
    let idx = pre.index_of(who);
    let accepted = !pre.finished && matches!(idx.map(|i| pre.st[i]), Some(S::Waiting) | Some(S::Unresponsive));
    // soundness of "answered": only the reporting peer, only if a request to it was outstanding
    let mut i = 0;
    while i < N {
        if i < pre.n && pre.st[i] != S::Succeeded {
            let now_succeeded = o.st[i] == Some(S::Succeeded);
            assert!(now_succeeded == (accepted && pre.ids[i] == who), "exactly the answering peer, if it was asked, becomes a responder");
        }
        i += 1;
    }
    if accepted {
        kani::cover!(idx.map(|i| pre.st[i]) == Some(S::Unresponsive), "late answer after the per-peer timeout");
        // every reported peer is a candidate afterwards (new ones as not-contacted)
        let known0 = pre.index_of(r0).is_some();
        let known1 = pre.index_of(r1).is_some();
        let mut expect = pre.n;
        if m >= 1 && !known0 {
            expect += 1;
        }
        if m >= 2 && !known1 && r1 != r0 {
            expect += 1;
        }
        assert!(o.count == expect, "a reported candidate was dropped (or an unreported one appeared)");
        let fresh = o.count - pre.n;
        assert!(o.not_contacted >= fresh, "new candidate must start as not contacted");
    } else {
        // late / unsolicited / duplicate answers and answers to a finished lookup change nothing
        assert!(o.count == pre.n, "an answer that was not awaited changed the candidate set");
        let mut i = 0;
        while i < N {
            if i < pre.n {
                assert!(o.st[i] == Some(pre.st[i]));
            }
            i += 1;
        }
        if progress_before_finished {
            assert!(matches!(q.progress, QueryProgress::Finished));
        }
    }
    std::mem::forget(q);
}

fn step_on_failure(n: usize) {
    let (mut q, pre) = arbitrary_query(n);
    let who: u8 = kani::any();
    q.on_failure(&Id(who));
    let o = check_invariant(&q, &pre);
    assert!(o.count == pre.n);
    let mut i = 0;
    while i < N {
        if i < pre.n {
            let s = o.st[i].unwrap();
            if pre.ids[i] == who && !pre.finished && (pre.st[i] == S::Waiting || pre.st[i] == S::Unresponsive) {
                assert!(s == S::Failed, "failure report for an outstanding request not recorded");
            } else {
                assert!(s == pre.st[i], "failure report changed another peer");
            }
        }
        i += 1;
    }
    std::mem::forget(q);
}

/// the result: at most num_results peers, all of them responders, closest first
fn step_into_result(n: usize) {
    let (q, pre) = arbitrary_query(n);
    let r = q.into_result();
    assert!(r.len() <= pre.num_results, "more results than requested");
    let succeeded = pre.count(S::Succeeded);
    assert!(r.len() == if succeeded < pre.num_results { succeeded } else { pre.num_results }, "responders missing from the result");
    let mut i = 0;
    while i < 3 {
        if i < r.len() {
            match pre.index_of(r[i].0) {
                Some(j) => assert!(pre.st[j] == S::Succeeded, "a peer that did not answer is in the result"),
                None => assert!(false, "unknown peer in the result"),
            }
            if i + 1 < r.len() {
                assert!((r[i].0 ^ pre.target) < (r[i + 1].0 ^ pre.target), "result not in increasing distance to the target");
            }
            // nobody closer that answered is left out
            let mut j = 0;
            while j < N {
                if j < pre.n && pre.st[j] == S::Succeeded && (pre.ids[j] ^ pre.target) < (r[i].0 ^ pre.target) {
                    let mut found = false;
                    let mut k = 0;
                    while k < 3 {
                        if k < r.len() && r[k].0 == pre.ids[j] {
                            found = true;
                        }
                        k += 1;
                    }
                    assert!(found, "a closer responder was left out of the result");
                }
                j += 1;
            }
        }
        i += 1;
    }
    std::mem::forget(r);
}

macro_rules! harnesses {
    ($($name:ident => $body:expr;)*) => {$(
        #[kani::proof]
        #[kani::unwind(11)]
        fn $name() { $body }
    )*};
}
harnesses! {
    c09_next_n2 => step_next(2);
    c09_on_failure_n2 => step_on_failure(2);
    c09_on_success_n1 => step_on_success(1);
    c10_into_result_n2 => step_into_result(2);
    c09_next_n1 => step_next(1);
    c09_next_n3 => step_next(3);
    c09_next_n4 => step_next(4);
    c09_on_success_n2 => step_on_success(2);
    c09_on_success_n3 => step_on_success(3);
    c09_on_failure_n3 => step_on_failure(3);
    c10_into_result_n3 => step_into_result(3);
    c10_into_result_n4 => step_into_result(4);
    c09_twin_must_fail => { step_next(1); assert!(false, "twin"); };
}

